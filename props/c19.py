"""C19 — sample generators cover exactly the requested range, ULP-uniformly.

Oracle: independent predicates on the float lattice (harness/flt.py), computed from the documented meaning of the arguments.
"""

import warnings

import numpy as np

from harness import flt, hyp
from harness.runner import Partial

warnings.filterwarnings("ignore")
st = hyp.st

FLAGS = ("include_infinity", "include_zero", "include_subnormal", "include_nan", "include_huge", "nonnegative", "unique")


def _val(b, f):
    return None if b is None else flt.bits_scalar(b, f)


def call_real(case):
    from functional_algorithms import utils

    f = flt.FMT[case["fmt"]]
    kw = {k: case[k] for k in FLAGS}
    with np.errstate(all="ignore"):
        return utils.real_samples(case["size"], dtype=f.ftype, min_value=_val(case["min"], f), max_value=_val(case["max"], f), **kw)


def mode_of(case):
    f = flt.FMT[case["fmt"]]
    mn, mx = case["min"], case["max"]
    if mn is None and mx is None:
        return "default"
    zb = []
    for nm, b in (("min", mn), ("max", mx)):
        if b is not None and (b & ~f.sign_mask) == 0:
            zb.append(nm + ("=-0" if b & f.sign_mask else "=+0"))
        elif b is not None and flt.is_subnormal_bits(b, f):
            zb.append(nm + "=sub")
    lo = flt.index(mn, f) if mn is not None else None
    hi = flt.index(mx, f) if mx is not None else None
    if lo is not None and hi is not None:
        if lo == hi:
            m = "equal"
        elif lo < 0 < hi:
            m = "straddle"
        elif lo >= 0:
            m = "pos"
        else:
            m = "neg"
    elif lo is not None:
        m = "min-only-" + ("neg" if lo < 0 else "nonneg")
    else:
        m = "max-only-" + ("neg" if hi < 0 else "pos" if hi > 0 else "zero")
    return m + ("[" + ",".join(zb) + "]" if zb else "")


def check_real(case):
    """Returns list of (cls, what)."""
    f = flt.FMT[case["fmt"]]
    mode = mode_of(case)
    sub_ok = case["include_subnormal"]
    SN = f.smallest_normal_bits
    try:
        r = call_real(case)
    except Exception as e:
        return [("real/%s/raises-%s" % (mode, type(e).__name__), "real_samples(%s) raised %r" % (show(case), e))]
    out = []

    def bad(kind, msg):
        out.append(("real/%s/%s" % (mode, kind), "real_samples(%s): %s" % (show(case), msg)))

    if not isinstance(r, np.ndarray) or r.ndim != 1 or r.dtype != f.ftype:
        bad("dtype", "returned %s" % (getattr(r, "dtype", type(r)),))
        return out
    if r.size == 0:
        bad("empty", "empty result")
        return out
    bits = flt.np_bits(r).astype(np.uint64)
    isnan = np.isnan(r)
    default = case["min"] is None and case["max"] is None
    if isnan.any() and not (default and case["include_nan"]):
        bad("nan-present", "NaN in samples")
        return out
    if default and case["include_nan"] and not isnan.any():
        bad("nan-missing", "include_nan=True but no NaN")
    rr = r[~isnan]
    idx = flt.np_index(rr)
    d = np.diff(idx)
    if case["unique"]:
        if not (d > 0).all():
            # +0/-0 both present count as equal values: not strictly increasing
            bad("not-strictly-increasing", "samples not strictly increasing: %s" % (brief(rr),))
    else:
        if not (d >= 0).all():
            bad("not-nondecreasing", "samples decrease: %s" % (brief(rr),))
    mag = np.abs(idx)
    subn = (mag > 0) & (mag < SN)
    if subn.any() and not sub_ok:
        bad("subnormal-present", "subnormal sample %r although include_subnormal=False" % (rr[subn][0],))
    INF = f.inf_bits
    finite = mag < INF
    min_pos = 1 if sub_ok else SN
    # ---- expected range
    if default:
        hi = f.largest_bits
        lo = (0 if case["include_zero"] else min_pos) if case["nonnegative"] else -hi
        req = {hi, min_pos}
        if not case["nonnegative"]:
            req |= {-hi, -min_pos}
        if case["include_zero"]:
            req.add(0)
        if case["include_infinity"]:
            req |= {INF} if case["nonnegative"] else {INF, -INF}
        have = set(int(i) for i in idx)
        missing = sorted(req - have)
        if missing:
            bad("missing-required", "missing %s" % ([float(flt.np_from_index([m], f)[0]) for m in missing],))
        if (not case["include_infinity"]) and (~finite).any():
            bad("infinity-present", "infinity although include_infinity=False")
        fin_idx = idx[finite]
        if fin_idx.size and (fin_idx.min() < lo or fin_idx.max() > hi):
            bad("out-of-range", "sample outside the default range")
        if (not case["include_zero"]) and (mag == 0).any():
            bad("zero-present", "zero although include_zero=False")
        specials = {0}
        # number of positive finite samples decides whether the huge value was inserted (documented: include_huge)
        if case["include_huge"]:
            specials |= {hi - 1, -(hi - 1)}
            npos = int(((idx > 0) & finite).sum())
            if npos > 3 and (hi - 1) not in have:
                bad("huge-missing", "include_huge=True but next-to-largest value missing (%d positive samples)" % npos)
    else:
        if (~finite).any():
            bad("infinity-present", "infinite sample with user bounds")
            return out
        mn, mx = case["min"], case["max"]
        # documented defaults for the unspecified side
        if mn is None:
            hi_i = flt.index(mx, f)
            lo_set = {-f.largest_bits} if hi_i < 0 else {SN, min_pos}
        else:
            lo_set = {flt.index(mn, f)}
        if mx is None:
            lo_i = flt.index(mn, f)
            hi_set = {-SN, -min_pos} if lo_i < 0 else {f.largest_bits}
        else:
            hi_set = {flt.index(mx, f)}
        # a subnormal bound is moved to zero or to the smallest normal when subnormals are excluded
        def moved(s):
            o = set()
            for i in s:
                if not sub_ok and 0 < abs(i) < SN:
                    o |= {0, SN if i > 0 else -SN}
                else:
                    o.add(i)
            return o

        lo_set, hi_set = moved(lo_set), moved(hi_set)
        lo, hi = min(lo_set), max(hi_set)
        if lo > hi:
            return out  # contradictory request; nothing claimed
        if idx.min() < lo or idx.max() > hi:
            bad("out-of-bounds", "samples %s outside [%r, %r]" % (brief(rr), float(flt.np_from_index([lo], f)[0]), float(flt.np_from_index([hi], f)[0])))
        have = set(int(i) for i in idx)
        if not (have & lo_set):
            bad("missing-lower-bound", "lower bound not among samples %s" % (brief(rr),))
        if not (have & hi_set):
            bad("missing-upper-bound", "upper bound not among samples %s" % (brief(rr),))
        if lo < 0 < hi and case["include_zero"] and 0 not in have:
            bad("zero-missing", "range straddles zero, include_zero=True, but 0 missing")
        specials = {0}
    # ---- ULP-uniform spacing per sign, apart from the special values
    for sgn in (1, -1):
        sel = finite & (idx * sgn > 0)
        g = np.sort(np.abs(idx[sel]))
        if g.size < 3:
            continue
        keep = np.array([int(v) * sgn not in specials for v in g])
        steps = []
        for a in range(len(g) - 1):
            if keep[a] and keep[a + 1]:
                steps.append(int(g[a + 1] - g[a]))
        # a removed special in the middle leaves a double step; those are not counted (both neighbours must be regular
        # *and* adjacent in the original sequence, which the loop above guarantees)
        if len(steps) >= 2 and max(steps) - min(steps) > 1:
            bad("spacing", "%s samples not equally spaced in ULP: steps min %d max %d" % ("positive" if sgn > 0 else "negative", min(steps), max(steps)))
            break
    return out


def brief(a):
    a = list(a)
    if len(a) > 8:
        return "[%s, ..., %s] (n=%d)" % (", ".join(repr(float(v)) for v in a[:4]), ", ".join(repr(float(v)) for v in a[-3:]), len(a))
    return "[" + ", ".join(repr(float(v)) for v in a) + "]"


def show(case):
    f = flt.FMT[case["fmt"]]
    parts = ["size=%d" % case["size"], "dtype=%s" % f.name]
    for k in FLAGS:
        dflt = {"include_infinity": True, "include_zero": True, "include_subnormal": False, "include_nan": False, "include_huge": True, "nonnegative": False, "unique": True}[k]
        if case[k] != dflt:
            parts.append("%s=%s" % (k, case[k]))
    for k in ("min", "max"):
        if case[k] is not None:
            parts.append("%s_value=%r" % (k, float(flt.bits_scalar(case[k], f))))
    return ", ".join(parts)


# ---------------------------------------------------------------- products


def check_product(case):
    from functional_algorithms import utils

    f = flt.FMT[case["fmt"]]
    kind = case["product"]
    flags = {k: case[k] for k in FLAGS if k != "unique"}
    axes = case["axes"]  # list of (size, min, max)
    out = []

    def one(ax):
        with np.errstate(all="ignore"):
            return utils.real_samples(ax[0], dtype=f.ftype, min_value=_val(ax[1], f), max_value=_val(ax[2], f), **flags)

    try:
        parts = [one(ax) for ax in axes]
    except Exception:
        return []  # failures of the 1-D generator are C19's first half, not the product claim
    def eq(a, b):
        return a.shape == b.shape and bool(np.all((a == b) | (np.isnan(a) & np.isnan(b))))

    try:
        with np.errstate(all="ignore"):
            if kind == "complex":
                z = utils.complex_samples(
                    (axes[0][0], axes[1][0]), dtype=f.ftype, min_real_value=_val(axes[0][1], f), max_real_value=_val(axes[0][2], f), min_imag_value=_val(axes[1][1], f), max_imag_value=_val(axes[1][2], f), **flags
                )
                re, im = parts
                ok = z.dtype == f.ctype and z.shape == (im.size, re.size) and eq(z.real, np.broadcast_to(re[None, :], z.shape)) and eq(z.imag, np.broadcast_to(im[:, None], z.shape))
                if not ok:
                    out.append(("product/complex", "complex_samples(%s) is not the Cartesian product re x im (shape %s, expected %s)" % (case, z.shape, (im.size, re.size))))
            elif kind == "pair":
                s1, s2 = utils.real_pair_samples(
                    (axes[0][0], axes[1][0]), dtype=f.ftype, min_value=tuple(_val(a[1], f) for a in axes) if any(a[1] is not None for a in axes) and all(a[1] is not None for a in axes) else None,
                    max_value=tuple(_val(a[2], f) for a in axes) if all(a[2] is not None for a in axes) else None, **flags
                )
                a, b = parts if all(x[1] is not None for x in axes) or True else parts
                # recompute the 1-D parts for exactly the arguments that were passed on
                pa = [one((ax[0], ax[1] if all(t[1] is not None for t in axes) else None, ax[2] if all(t[2] is not None for t in axes) else None)) for ax in axes]
                e1 = np.tile(pa[0], pa[1].size)
                e2 = np.repeat(pa[1], pa[0].size)
                if not (eq(s1, e1) and eq(s2, e2)):
                    out.append(("product/pair", "real_pair_samples is not the Cartesian product (sizes %d,%d vs %d)" % (pa[0].size, pa[1].size, s1.size)))
            elif kind == "complex_pair":
                # axes = [re1, im1, re2, im2]
                def tup(i, j, k):
                    a, b = axes[i][k], axes[j][k]
                    if a is None and b is None:
                        return None
                    if a is None or b is None:
                        return None
                    return (_val(a, f), _val(b, f))

                kw = dict(min_real_value=tup(0, 2, 1), max_real_value=tup(0, 2, 2), min_imag_value=tup(1, 3, 1), max_imag_value=tup(1, 3, 2))
                used = []
                for i, ax in enumerate(axes):
                    j = {0: 2, 1: 3, 2: 0, 3: 1}[i]
                    mn = ax[1] if (ax[1] is not None and axes[j][1] is not None) else None
                    mx = ax[2] if (ax[2] is not None and axes[j][2] is not None) else None
                    used.append(one((ax[0], mn, mx)))
                s1, s2 = utils.complex_pair_samples(((axes[0][0], axes[1][0]), (axes[2][0], axes[3][0])), dtype=f.ftype, **kw, **flags)
                re1, im1, re2, im2 = used
                c1 = [(a, b) for b in im1 for a in re1]
                c2 = [(a, b) for b in im2 for a in re2]

                def key(v):
                    return tuple((1, 0.0) if x != x else (0, float(x)) for x in v)

                want = sorted(key(u + v) for u in c1 for v in c2)
                got = sorted(key((a.real, a.imag, b.real, b.imag)) for a, b in zip(np.asarray(s1).ravel(), np.asarray(s2).ravel()))
                if s1.shape != s2.shape or want != got:
                    out.append(("product/complex_pair", "complex_pair_samples is not the Cartesian product of its four 1-D axes (%d pairs, expected %d)" % (len(got), len(want))))
            elif kind == "triple":
                allmin = all(t[1] is not None for t in axes)
                allmax = all(t[2] is not None for t in axes)
                s1, s2, s3 = utils.real_triple_samples(
                    tuple(a[0] for a in axes), dtype=f.ftype, min_value=tuple(_val(a[1], f) for a in axes) if allmin else None, max_value=tuple(_val(a[2], f) for a in axes) if allmax else None, **flags
                )
                pa = [one((ax[0], ax[1] if allmin else None, ax[2] if allmax else None)) for ax in axes]
                n1, n2, n3 = (p.size for p in pa)
                e1 = np.repeat(pa[0], n2 * n3)
                e2 = np.tile(np.repeat(pa[1], n3), n1)
                e3 = np.tile(pa[2], n1 * n2)
                if not (eq(s1, e1) and eq(s2, e2) and eq(s3, e3)):
                    out.append(("product/triple", "real_triple_samples is not the Cartesian product"))
    except Exception as e:
        out.append(("product/%s/raises-%s" % (kind, type(e).__name__), "%s product generator raised %r although the 1-D generators succeeded" % (kind, e)))
    return out


def replay(case):
    if case.get("product"):
        return check_product(case)
    return check_real(case)


# ---------------------------------------------------------------- strategies


@st.composite
def bound(draw, f):
    kind = draw(st.sampled_from(["special", "special", "random", "random", "subnormal", "zero"]))
    s = draw(st.integers(0, 1)) << (f.bits - 1)
    if kind == "zero":
        return s
    if kind == "subnormal":
        return s | draw(st.integers(1, f.smallest_normal_bits - 1))
    if kind == "special":
        one = flt.RN(1, f)
        m = draw(st.sampled_from([1, f.smallest_normal_bits - 1, f.smallest_normal_bits, f.smallest_normal_bits + 1, one - 1, one, one + 1, flt.RN(2, f), flt.RN(1000, f), f.largest_bits - 1, f.largest_bits]))
        return s | m
    return s | draw(st.integers(1, f.largest_bits))


@st.composite
def real_cases(draw):
    fb = draw(st.sampled_from([16, 32, 64]))
    f = flt.FMT[fb]
    case = {"fmt": fb}
    case["size"] = draw(st.one_of(st.integers(6, 12), st.integers(6, 60), st.integers(6, 2000)))
    for k in FLAGS:
        dflt = {"include_infinity": True, "include_zero": True, "include_subnormal": False, "include_nan": False, "include_huge": True, "nonnegative": False, "unique": True}[k]
        case[k] = draw(st.sampled_from([dflt, dflt, not dflt]))
    shape = draw(st.sampled_from(["none", "none", "both", "both", "both", "min", "max", "close", "equal", "straddle-unequal"]))
    mn = mx = None
    if shape in ("both", "min", "max"):
        a, b = draw(bound(f)), draw(bound(f))
        if flt.index(a, f) > flt.index(b, f):
            a, b = b, a
        if shape in ("both", "min"):
            mn = a
        if shape in ("both", "max"):
            mx = b if shape == "both" else a
        if shape == "max" and (mx & ~f.sign_mask) == 0:
            mx = flt.RN(1, f)  # max_value=0 without min_value: default min is undocumented for this case
    elif shape == "close":
        a = draw(bound(f))
        k = draw(st.integers(1, 3))
        i = flt.index(a, f)
        j = min(i + k, f.largest_bits)
        mn, mx = a, flt.from_index(j, f)
    elif shape == "equal":
        mn = mx = draw(bound(f))
    elif shape == "straddle-unequal":
        big = draw(st.integers(f.smallest_normal_bits, f.largest_bits))
        small = draw(st.sampled_from([1, 2, f.smallest_normal_bits, f.smallest_normal_bits + 1, f.smallest_normal_bits + 5]))
        if draw(st.booleans()):
            mn, mx = f.sign_mask | big, small
        else:
            mn, mx = f.sign_mask | small, big
    case["min"], case["max"] = mn, mx
    if fb == 16 and draw(st.integers(0, 30)) == 0:
        case["size"] = draw(st.integers(2000, 70000))
    elif fb != 16 and draw(st.integers(0, 40)) == 0:
        # sizes beyond 2^16 / 2^17 lattice points per sign (the lattice arithmetic must not depend on a narrow integer type)
        case["size"] = draw(st.sampled_from([65537, 70000, 100000, 131075, 200000, 300001]))
    return case


@st.composite
def product_cases(draw):
    fb = draw(st.sampled_from([32, 64]))
    f = flt.FMT[fb]
    kind = draw(st.sampled_from(["complex", "pair", "triple", "complex_pair"]))
    case = {"fmt": fb, "product": kind}
    for k in FLAGS:
        dflt = {"include_infinity": True, "include_zero": True, "include_subnormal": False, "include_nan": False, "include_huge": True, "nonnegative": False, "unique": True}[k]
        case[k] = draw(st.sampled_from([dflt, dflt, not dflt]))
    case["unique"] = True
    n = 3 if kind == "triple" else (4 if kind == "complex_pair" else 2)
    withb = draw(st.booleans())
    axes = []
    for _ in range(n):
        size = draw(st.integers(6, 14))
        if withb:
            a = draw(st.integers(f.smallest_normal_bits, f.largest_bits))
            b = draw(st.integers(f.smallest_normal_bits, f.largest_bits))
            if a > b:
                a, b = b, a
            sgn = draw(st.sampled_from(["pos", "neg", "straddle"]))
            if sgn == "pos":
                axes.append([size, a, b if b > a else a + 7])
            elif sgn == "neg":
                axes.append([size, f.sign_mask | (b if b > a else a + 7), f.sign_mask | a])
            else:
                axes.append([size + 6, f.sign_mask | a, b])
        else:
            axes.append([size, None, None])
    case["axes"] = axes
    return case


def _shard(task):
    from harness.runner import Ctx

    seed, shard, n, known, which = task
    sub = Ctx("C19", "quick", seed * 64 + shard, known)
    if which == "real":

        def body(case, part):
            part.count(1, "real/f%d/%s" % (case["fmt"], mode_of(case).split("[")[0]))
            if case["min"] is not None or case["max"] is not None or case["size"] > 100:
                part.nontrivial(case)
            if len(part.samples) < 1:
                part.sample({"call": "real_samples(%s)" % show(case)})
            return check_real(case)

        hyp.drive(sub, real_cases(), body, n, stream=shard, max_classes=40)
    else:

        def body(case, part):
            part.count(1, "product/%s" % case["product"])
            part.nontrivial(case)
            if len(part.samples) < 1:
                part.sample(case)
            return check_product(case)

        hyp.drive(sub, product_cases(), body, n, stream=50 + shard, max_classes=10)
    p = Partial()
    p.merge(sub)
    return p


def run(ctx):
    ctx.rule = (
        "Hypothesis-generated argument sets: size 6..2000 (float16 occasionally up to 70000, float32/float64 occasionally 65537..300001), dtype, all include_* flags, nonnegative, unique, "
        "bounds from {none, one side, both sides from special values/random floats/subnormals/+-0, 1-3 ULP apart, equal, straddling zero "
        "with very unequal sides}; product generators (complex, pair, triple) on default and bounded axes compared with the Cartesian "
        "product of the 1-D samples. Oracle: lattice predicates (order, range, bound membership, specials, subnormal/NaN absence, "
        "per-sign ULP spacing max-min<=1 apart from special values). Non-trivial = user bounds given or size>100 / any product case."
    )
    ctx.assumptions = [
        "min_value > max_value and max_value=0 without min_value are outside the documented domain and not generated",
        "when one bound is omitted the documented default (smallest normal / largest / their negatives; smallest subnormal accepted when include_subnormal) is the expected bound",
        "Cartesian products are compared by value (== with NaN==NaN), not by the sign of zero",
    ]
    n1 = 2000 if ctx.quick else 40000
    n2 = 250 if ctx.quick else 5000
    tasks = [(ctx.seed, s, n1, ctx.known, "real") for s in range(12)] + [(ctx.seed, s, n2, ctx.known, "product") for s in range(4)]
    ctx.pmap(_shard, tasks)
