"""C11 — emulated compound operations meet their documented error bounds.

Subjects are traced into graphs and run through the NumPy target (vectorised); next/is_power_of_two are also run through
NumpyContext.  Oracle: exact rational result rounded once (harness/flt.py), lattice distance.
"""

import math
import warnings
from fractions import Fraction

import numpy as np

from harness import flt
from harness.runner import Partial

warnings.filterwarnings("ignore")
np.seterr(all="ignore")

_FN = {}


def traced(name, fb):
    key = (name, fb)
    if key in _FN:
        return _FN[key]
    import functional_algorithms as fa
    from functional_algorithms import floating_point_algorithms as fpa, apmath, apmath_algorithms

    f = flt.FMT[fb]
    dt = f.ftype
    p = f.p

    def consts(ctx, x):
        Q = ctx.constant(float(2 ** (p - 1)), x)
        P = ctx.constant(float(2 ** (p - 1) + 1), x)
        t = ctx.constant(1.5, x)
        C = ctx.constant(float(2 ** ((p + 1) // 2) + 1), x)
        return Q, P, t, C

    paths = [fa.algorithms]
    nargs = 3
    if name == "add_3sum":

        def fn(ctx, x: dt, y: dt, z: dt):
            Q, P, t, C = consts(ctx, x)
            return fpa.add_3sum(ctx, x, y, z, Q, P, t)

    elif name == "add_4sum":
        nargs = 4

        def fn(ctx, x: dt, y: dt, z: dt, w: dt):
            Q, P, t, C = consts(ctx, x)
            return fpa.add_4sum(ctx, x, y, z, w, Q, P, t)

    elif name == "dot2":
        nargs = 4

        def fn(ctx, x: dt, y: dt, z: dt, w: dt):
            Q, P, t, C = consts(ctx, x)
            return fpa.dot2(ctx, x, y, z, w, C, Q, P, t)

    elif name == "mul_add":

        def fn(ctx, x: dt, y: dt, z: dt):
            Q, P, t, C = consts(ctx, x)
            return fpa.mul_add(ctx, x, y, z, C, Q, P, t)

    elif name.startswith("fma/"):
        _, mod, alg, fo, pz = name.split("/")
        fo, pz = fo == "fix", pz == "pz"
        if mod == "apmath":

            def fn(ctx, x: dt, y: dt, z: dt):
                return apmath.fma(ctx, x, y, z, algorithm=alg, fix_overflow=fo, possibly_zero_z=pz)

        else:
            paths = [apmath_algorithms]

            def fn(ctx, x: dt, y: dt, z: dt):
                return apmath_algorithms.fma_real(ctx, x, y, z, algorithm=alg, fix_overflow=fo, possibly_zero_z=pz)

    elif name in ("next/up", "next/down"):
        nargs = 1

        def fn(ctx, x: dt):
            return fpa.next(ctx, x, up=name.endswith("up"))

    elif name == "is_power_of_two":
        nargs = 1

        def fn(ctx, x: dt):
            return fpa.is_power_of_two(ctx, x)

    else:
        raise ValueError(name)
    ctx = fa.Context(paths=paths)
    g = ctx.trace(fn, *([dt] * nargs))
    g = g.rewrite(fa.targets.numpy, fa.rewrite)
    out = fa.targets.numpy.as_function(g)
    _FN[key] = out
    return out


FMA_NAMES = ["fma/%s/%s/%s/%s" % (m, a, fo, pz) for m in ("apmath", "real") for a in ("a7", "a8", "a9", "apmath") for fo in ("fix", "nofix") for pz in ("pz", "nopz")]
BOUND = {"add_3sum": 1, "add_4sum": 1, "mul_add": 2, "dot2": 3}


def fr(b, f):
    return flt.bits2frac(b, f)


def judge(name, fb, bits):
    """bits: tuple of operand bit patterns. Runs the subject on this single tuple and checks the documented claim.
    returns (status, violations, nontrivial)"""
    f = flt.FMT[fb]
    arrs = [np.array([b], dtype=np.uint64).astype(f.utype).view(f.ftype) for b in bits]
    out = traced(name, fb)(*arrs)
    return judge_out(name, fb, bits, [int(flt.np_bits(np.asarray(o, dtype=f.ftype))[0]) for o in (out if isinstance(out, (list, tuple)) else [out])])


def judge_out(name, fb, bits, outs):
    f = flt.FMT[fb]
    L = f.largest
    vals = [fr(b, f) for b in bits]
    scal = [flt.bits_scalar(b, f) for b in bits]

    def show(o):
        return flt.bits_scalar(o, f)

    def dist(ob, exact):
        """lattice distance between returned bits and RN(exact); None if returned non-finite while exact rounds finite"""
        want = flt.RN(exact, f)
        if flt.is_nan_bits(ob, f):
            return None, want
        return abs(flt.index(ob, f) - flt.index(want, f)), want

    if name in BOUND:
        if name == "add_3sum":
            if any(abs(v) >= L / 4 for v in vals):
                return "out", [], False
            exact = sum(vals)
            s, e, t = outs
            if not all(flt.is_finite_bits(o, f) for o in outs):
                return "in", [(name + "/nonfinite", "add_3sum%r returned %r" % (tuple(scal), [show(o) for o in outs]))], True
            bad = []
            if fr(s, f) + fr(e, f) + fr(t, f) != exact:
                bad.append((name + "/not-exact", "add_3sum%r = %r: s+e+t != x+y+z" % (tuple(scal), [show(o) for o in outs])))
            # s + (e + t) evaluated in the format
            st = show(s) + (show(e) + show(t))
            d, want = dist(flt.scalar_bits(st), exact)
            if d is None or d > 1:
                bad.append((name + "/bound", "add_3sum%r: s+(e+t)=%r is %s lattice steps from RN(x+y+z)=%r" % (tuple(scal), st, d, show(want))))
            return "in", bad, not flt.is_representable(exact, f)
        if name == "add_4sum":
            if any(abs(v) >= L / 4 for v in vals):
                return "out", [], False
            exact = sum(vals)
        elif name == "dot2":
            lim = Fraction(math.isqrt(int(L)))  # floor(sqrt(largest)) <= sqrt(largest)
            if any(abs(v) >= lim / 2 for v in vals):
                return "out", [], False
            exact = vals[0] * vals[1] + vals[2] * vals[3]
        else:  # mul_add
            lim = Fraction(math.isqrt(int(L)))
            if abs(vals[0]) >= lim / 2 or abs(vals[1]) >= lim / 2 or abs(vals[2]) >= L / 2:
                return "out", [], False
            exact = vals[0] * vals[1] + vals[2]
        d, want = dist(outs[0], exact)
        tiny = "products-underflow" if name in ("dot2", "mul_add") and any(0 < abs(vals[i] * vals[i + 1]) < f.smallest_normal * 2**f.p for i in ((0, 2) if name == "dot2" else (0,))) else "regular"
        if d is None or d > BOUND[name]:
            return "in", [("%s/bound/%s" % (name, tiny), "%s%r = %r is %s lattice steps from the correctly rounded %r (bound %d)" % (name, tuple(scal), show(outs[0]), d, show(want), BOUND[name]))], True
        return "in", [], not flt.is_representable(exact, f)
    if name.startswith("fma/"):
        _, mod, alg, fo, pz = name.split("/")
        x, y, z = vals
        xy = x * y
        exact = xy + z
        if abs(xy) >= f.overflow_threshold or abs(exact) >= f.overflow_threshold:
            return "out", [], False
        if pz == "nopz" and z == 0:
            return "out", [], False
        if fo == "nofix" and not (abs(xy) <= L / 4 and abs(z) <= L / 4 and abs(x) <= L / 4 and abs(y) <= L / 4):
            return "out", [], False  # without fix_overflow the documented domain excludes overflow inside the algorithm
        d, want = dist(outs[0], exact)
        if d is None or d > 1:
            under = "xy-error-underflows" if (xy != 0 and not flt.is_representable(xy - fr(flt.RN(xy, f), f), f)) else ("near-overflow" if abs(xy) > L / 4 or abs(z) > L / 4 else "regular")
            nonfinite = d is None or not flt.is_finite_bits(outs[0], f)
            cls = ("fma/near-overflow/nonfinite-result" if nonfinite else "fma/near-overflow") if under == "near-overflow" else (("fma/xy-error-underflows/2-steps" if d == 2 else "fma/%s/%s" % (alg, under)) if under == "xy-error-underflows" else "fma/%s/%s/%s" % (mod, alg, under))
            return "in", [(cls, "%s%r = %r is %s lattice steps from RN(x*y+z) = %r" % (name, tuple(scal), show(outs[0]), d, show(want)))], True
        return "in", [], not flt.is_representable(exact, f)
    if name in ("next/up", "next/down"):
        b = bits[0]
        up = name.endswith("up")
        i = flt.index(b, f)
        if abs(i) < f.smallest_normal_bits or abs(i) > f.largest_bits:
            return "out", [], False
        j = i + 1 if up else i - 1
        if abs(j) < f.smallest_normal_bits or abs(j) > f.largest_bits:
            return "out", [], False
        if flt.is_nan_bits(outs[0], f) or flt.index(outs[0], f) != j:
            sgn = "neg" if i < 0 else "pos"
            return "in", [("%s/%s" % (name, sgn), "next(%r, up=%s) = %r, nextafter = %r" % (scal[0], up, show(outs[0]), flt.bits_scalar(flt.from_index(j, f), f)))], True
        return "in", [], (abs(i) >> f.mbits) != (abs(j) >> f.mbits)
    raise ValueError(name)


def replay(case):
    if case["subject"] == "is_power_of_two":
        return check_pow2(case["fmt"], np.array(case["bits"], dtype=np.uint64), via=case.get("via", "traced"))[0]
    st, bad, nt = judge(case["subject"], case["fmt"], tuple(case["bits"]))
    return bad


def check_pow2(fb, bits, via="traced"):
    """is_power_of_two on its documented domain, vectorised; returns (violations, n_in_domain, n_true)"""
    from functional_algorithms import floating_point_algorithms as fpa, utils

    f = flt.FMT[fb]
    x = bits.astype(f.utype).view(f.ftype)
    if via == "traced":
        r = np.asarray(traced("is_power_of_two", fb)(x)).astype(bool)
    else:
        # the eager API accepts scalars only: a strided subsample
        step = max(1, len(bits) // 1500)
        bits = bits[::step]
        x = x[::step]
        c = utils.NumpyContext(f.ftype)
        r = np.array([bool(fpa.is_power_of_two(c, v)) for v in x], dtype=bool)
        rinv = np.array([bool(fpa.is_power_of_two(c, v, invert=True)) for v in x], dtype=bool)
    mag = (bits & np.uint64(~f.sign_mask & ((1 << f.bits) - 1))).astype(np.uint64)
    e = (mag >> np.uint64(f.mbits)).astype(np.int64)
    m = mag & np.uint64(f.man_mask)
    truth = np.where(e > 0, m == 0, (m != 0) & ((m & (m - np.uint64(1))) == 0))
    lo, hi = {16: (-24, 6), 32: (-129, 105), 64: (-1074, 972)}[fb]
    # |x| >= 2^lo and |x| < 2^hi
    ax = np.abs(x.astype(np.float64)) if fb < 64 else np.abs(x)
    dom = np.isfinite(x) & (ax >= 2.0**lo) & (ax < 2.0**hi)
    badmask = dom & (r != truth)
    out = []
    for i in np.nonzero(badmask)[0][:20]:
        cls = "is_power_of_two/%s/%s" % ("false-negative" if truth[i] else "false-positive", "subnormal" if e[i] == 0 else "normal")
        out.append((cls, "is_power_of_two(%r) [%s] = %s" % (x[i], via, bool(r[i])), {"subject": "is_power_of_two", "fmt": fb, "bits": [int(bits[i])], "via": via}))
    if via != "traced":
        for i in np.nonzero(dom & (rinv == truth))[0][:20]:
            out.append(("is_power_of_two/invert-not-negation", "is_power_of_two(%r, invert=True) [%s] = %s although %r %s a power of two" % (x[i], via, bool(rinv[i]), x[i], "is" if truth[i] else "is not"), {"subject": "is_power_of_two", "fmt": fb, "bits": [int(bits[i])], "via": via}))
    return [(c, w) for c, w, _ in out] if False else out, int(dom.sum()), int((dom & truth).sum())


# ----------------------------------------------------------------- generators


def rnd_bits(rng, f, n, emin_field=1, emax_field=None):
    emax_field = emax_field if emax_field is not None else (1 << f.ebits) - 2
    e = rng.integers(emin_field, emax_field + 1, size=n).astype(np.uint64)
    from props.c10 import shaped_mantissa

    m = shaped_mantissa(rng, f, n)
    s = rng.integers(0, 2, size=n).astype(np.uint64) << np.uint64(f.bits - 1)
    return s | (e << np.uint64(f.mbits)) | m


def to_bits(arr, f):
    return flt.np_bits(np.asarray(arr, dtype=f.ftype)).astype(np.uint64)


def gen_fma(rng, f, n):
    """(x, y, z) triples constructed to stress the fused multiply-add: ties and binade edges of the product,
    cancellation against -RN(xy), z at half-ulp scale of xy, tiny/huge/zero z, products near under/overflow."""
    ft = f.ftype
    bias = f.bias
    # x anywhere, product exponent target chosen, y from target
    xb = rnd_bits(rng, f, n, 1)
    x = xb.astype(f.utype).view(ft)
    tgt = rng.integers(f.emin - f.p - 2, f.emax + 1, size=n)
    near = rng.random(n) < 0.35
    tgt = np.where(near, rng.choice([f.emin - 2, f.emin, f.emin + f.p, f.emin + 2 * f.p + 1, 0, 1, f.emax - 2, f.emax - 1, f.emax], size=n) + rng.integers(-1, 2, size=n), tgt)
    ex = ((xb >> np.uint64(f.mbits)) & np.uint64((1 << f.ebits) - 1)).astype(np.int64) - bias
    ey = np.clip(tgt - ex, f.emin, f.emax)
    j = rng.integers(-3, 4, size=n)
    shape = rng.integers(0, 4, size=n)
    # y so that x*y ~ 2^tgt * (1 + j*2^-p): product at a binade edge / tie region
    with np.errstate(all="ignore"):
        y_edge = (np.ldexp(1.0 + j * 2.0 ** (-f.p), tgt.astype(np.int64)) / x.astype(np.float64)).astype(ft)
    yb_rand = rnd_bits(rng, f, n, 1)
    yb_rand = (yb_rand & ~(np.uint64((1 << f.ebits) - 1) << np.uint64(f.mbits))) | ((ey + bias).astype(np.uint64) << np.uint64(f.mbits))
    yb = np.where(shape == 0, to_bits(y_edge, f), yb_rand)
    yb = np.where(np.isfinite(yb.astype(f.utype).view(ft)), yb, yb_rand)
    y = yb.astype(f.utype).view(ft)
    with np.errstate(all="ignore"):
        xy = x * y  # RN(xy) in the format
        zk = rng.integers(0, 9, size=n)
        eps = ft(2.0 ** (-f.mbits))
        jj = rng.integers(-4, 5, size=n).astype(ft)
        z_cancel = -xy * (ft(1) + jj * eps)
        half = np.abs(xy) * ft(2.0 ** (-f.p))
        z_half = np.where(rng.random(n) < 0.5, half, -half) * (ft(1) + jj * eps)
        z_tiny = rnd_bits(rng, f, n, 0, f.p + 2).astype(f.utype).view(ft)
        z_huge = rnd_bits(rng, f, n, (1 << f.ebits) - 5).astype(f.utype).view(ft)
        z_rand = rnd_bits(rng, f, n, 0).astype(f.utype).view(ft)
        z_near = (xy * np.ldexp(ft(1), rng.integers(-f.p - 2, f.p + 3, size=n).astype(np.int32))).astype(ft) * (ft(1) + jj * eps)
        z = np.select([zk == 0, zk == 1, zk == 2, zk == 3, zk == 4, zk == 5, zk == 6], [z_cancel, z_half, z_tiny, z_huge, ft(0) * xy * 0, z_near, -z_near], z_rand).astype(ft)
    z = np.where(np.isfinite(z), z, z_rand)
    return xb, yb, to_bits(z, f)


def gen_sum(rng, f, n, k):
    """k-tuples for 3Sum/4Sum: exponent gaps, cancellations, ties; all |.| < largest/4."""
    ft = f.ftype
    top = (1 << f.ebits) - 4
    cols = []
    xb = rnd_bits(rng, f, n, 0, top)
    x = xb.astype(f.utype).view(ft)
    cols.append(xb)
    eps = ft(2.0 ** (-f.mbits))
    prev = x
    for c in range(1, k):
        kind = rng.integers(0, 6, size=n)
        jj = rng.integers(-4, 5, size=n).astype(ft)
        gap = rng.integers(0, f.p + 3, size=n)
        with np.errstate(all="ignore"):
            a = -prev * (ft(1) + jj * eps)
            b = np.ldexp(np.abs(prev), (-gap).astype(np.int32)).astype(ft) * np.where(rng.random(n) < 0.5, ft(1), ft(-1)) * (ft(1) + jj * eps)
            h = np.abs(prev) * ft(2.0 ** (-f.p)) * np.where(rng.random(n) < 0.5, ft(1), ft(-1))
            r = rnd_bits(rng, f, n, 0, top).astype(f.utype).view(ft)
            col = np.select([kind == 0, kind == 1, kind == 2, kind == 3], [a, b, h, b], r).astype(ft)
        col = np.where(np.isfinite(col), col, r)
        cols.append(to_bits(col, f))
        with np.errstate(all="ignore"):
            prev = np.where(rng.random(n) < 0.5, prev + col, col).astype(ft)
            prev = np.where(np.isfinite(prev) & (prev != 0), prev, r)
    # random permutation of columns per row
    M = np.stack(cols, axis=1)
    perm = np.argsort(rng.random((n, k)), axis=1)
    return [np.take_along_axis(M, perm, axis=1)[:, i] for i in range(k)]


def gen_dot(rng, f, n, k):
    """operands for mul_add (k=3: x,y,z) and dot2 (k=4: x,y,z,w) within sqrt(largest)/2."""
    ft = f.ftype
    half_e = f.emax // 2 - 2
    lo_e = f.emin // 2
    def fac(n_):
        b = rnd_bits(rng, f, n_, 1)
        e = rng.integers(lo_e - f.p, half_e + 1, size=n_)
        e = np.where(rng.random(n_) < 0.25, rng.integers(half_e - 2, half_e + 1, size=n_), e)
        e = np.where(rng.random(n_) < 0.15, rng.integers(f.emin, lo_e, size=n_), e)
        b = (b & ~(np.uint64((1 << f.ebits) - 1) << np.uint64(f.mbits))) | ((np.clip(e, f.emin, f.emax) + f.bias).astype(np.uint64) << np.uint64(f.mbits))
        return b
    xb, yb = fac(n), fac(n)
    x, y = xb.astype(f.utype).view(ft), yb.astype(f.utype).view(ft)
    eps = ft(2.0 ** (-f.mbits))
    jj = rng.integers(-4, 5, size=n).astype(ft)
    with np.errstate(all="ignore"):
        xy = x * y
    if k == 3:
        zk = rng.integers(0, 6, size=n)
        with np.errstate(all="ignore"):
            zc = -xy * (ft(1) + jj * eps)
            zh = np.abs(xy) * ft(2.0 ** (-f.p)) * (ft(1) + jj * eps)
            zr = rnd_bits(rng, f, n, 0, (1 << f.ebits) - 3).astype(f.utype).view(ft)
            zt = rnd_bits(rng, f, n, 0, f.p).astype(f.utype).view(ft)
            z = np.select([zk == 0, zk == 1, zk == 2, zk == 3], [zc, zh, -zh, zt], zr).astype(ft)
        z = np.where(np.isfinite(z), z, zr)
        return [xb, yb, to_bits(z, f)]
    # dot2: z*w ~ -x*y (cancellation) or random
    zb = fac(n)
    z = zb.astype(f.utype).view(ft)
    wk = rng.integers(0, 4, size=n)
    with np.errstate(all="ignore"):
        wc = (-xy / z).astype(ft) * (ft(1) + jj * eps)
        wr = fac(n).astype(f.utype).view(ft)
        w = np.select([wk == 0, wk == 1], [wc, wc * ft(2.0 ** (-f.p))], wr).astype(ft)
    w = np.where(np.isfinite(w), w, wr)
    return [xb, yb, zb, to_bits(w, f)]


def _shard(task):
    name, fb, seedtuple, n = task
    f = flt.FMT[fb]
    rng = np.random.Generator(np.random.PCG64(np.random.SeedSequence(list(seedtuple))))
    p = Partial()
    if name.startswith("fma/"):
        cols = gen_fma(rng, f, n)
    elif name in ("add_3sum", "add_4sum"):
        cols = gen_sum(rng, f, n, 3 if name == "add_3sum" else 4)
    elif name in ("mul_add", "dot2"):
        cols = gen_dot(rng, f, n, 3 if name == "mul_add" else 4)
    else:
        raise ValueError(name)
    arrs = [c.astype(f.utype).view(f.ftype) for c in cols]
    out = traced(name, fb)(*arrs)
    outs = [flt.np_bits(np.broadcast_to(np.asarray(o, dtype=f.ftype), arrs[0].shape).copy()).astype(np.uint64) for o in (out if isinstance(out, (list, tuple)) else [out])]
    cnt = {"in": 0, "out": 0}
    for i in range(len(cols[0])):
        bits = tuple(int(c[i]) for c in cols)
        st, bad, nt = judge_out(name, fb, bits, [int(o[i]) for o in outs])
        cnt[st] += 1
        for cls, what in bad:
            p.violation(cls, what, {"subject": name, "fmt": fb, "bits": list(bits)})
        if st == "in" and nt:
            p.nontrivial((name, fb) + bits)
    p.count(cnt["in"], "%s/f%d/in-domain" % (name, fb))
    p.count(cnt["out"], "%s/f%d/out-of-domain" % (name, fb))
    i = len(cols[0]) // 2
    p.sample({"subject": name, "fmt": fb, "operands": [flt.bits_scalar(int(c[i]), f) for c in cols], "result": [flt.bits_scalar(int(o[i]), f) for o in outs]})
    return p


def _enum_shard(task):
    """next / is_power_of_two over a contiguous range of bit patterns (exhaustive float16/float32) or sampled float64."""
    from functional_algorithms import floating_point_algorithms as fpa, utils

    fb, lo, hi, stride, seedtuple = task
    f = flt.FMT[fb]
    p = Partial()
    if fb == 64:
        rng = np.random.Generator(np.random.PCG64(np.random.SeedSequence(list(seedtuple))))
        bits = np.concatenate([flt.np_bits(flt.random_bits_floats(rng, hi, f, finite=True)).astype(np.uint64), _binade_edges(f)])
    else:
        bits = np.arange(lo, hi, stride, dtype=np.uint64)
        if stride > 1:
            bits = np.unique(np.concatenate([bits, _binade_edges(f)]))
        e = bits & np.uint64(f.exp_mask)
        bits = bits[e != np.uint64(f.exp_mask)]
    x = bits.astype(f.utype).view(f.ftype)
    idx = flt.np_index(x)
    mag = np.abs(idx)
    ctx = utils.NumpyContext(f.ftype)
    for up in (True, False):
        name = "next/up" if up else "next/down"
        j = idx + (1 if up else -1)
        dom = (mag >= f.smallest_normal_bits) & (np.abs(j) >= f.smallest_normal_bits) & (np.abs(j) <= f.largest_bits)
        want = flt.np_from_index(np.where(dom, j, 0), f)
        for via in ("traced", "numpycontext"):
            r = traced(name, fb)(x) if via == "traced" else fpa.next(ctx, x, up=up)
            r = np.asarray(r, dtype=f.ftype)
            badm = dom & (flt.np_bits(r) != flt.np_bits(want))
            for i in np.nonzero(badm)[0][:10]:
                p.violation("%s/%s" % (name, "neg" if idx[i] < 0 else "pos"), "next(%r, up=%s) [%s] = %r, nextafter = %r" % (x[i], up, via, r[i], want[i]), {"subject": name, "fmt": fb, "bits": [int(bits[i])]})
            p.count(int(dom.sum()), "%s/f%d/%s" % (name, fb, via))
        edge = dom & ((mag >> f.mbits) != (np.abs(j) >> f.mbits))
        p.nontrivial_enumerated(int(edge.sum())) if stride == 1 and fb < 64 else p.nontrivial_many(bits[edge] ^ np.uint64(0xABCDE if up else 0x12345))
    for via in ("traced", "numpycontext"):
        bad, ndom, ntrue = check_pow2(fb, bits, via)
        for cls, what, case in bad:
            p.violation(cls, what, case)
        p.count(ndom, "is_power_of_two/f%d/%s" % (fb, via))
        if via == "traced":
            p.nontrivial_enumerated(ntrue) if stride == 1 and fb < 64 else None
    if len(x):
        p.sample({"subject": "next/up", "fmt": fb, "x": x[len(x) // 2]})
    return p


def _binade_edges(f):
    out = []
    for e in range(0, (1 << f.ebits) - 1):
        for m in (0, 1, 2, f.man_mask, f.man_mask - 1, 1 << (f.mbits - 1)):
            out.append((e << f.mbits) | m)
    for k in range(f.mbits):
        out += [1 << k, (1 << k) + 1, (3 << k) & f.man_mask]
    a = np.array(out, dtype=np.uint64)
    return np.concatenate([a, a | np.uint64(f.sign_mask)])


def run(ctx):
    q = ctx.quick
    ctx.rule = (
        "next/nextup/nextdown and is_power_of_two: every float16 bit pattern and (thorough) every float32 bit pattern (quick: every 257th "
        "plus all binade edges), sampled float64, through the traced NumPy-target graph and through NumpyContext, vs the lattice model on the "
        "documented domains; add_3sum, add_4sum, mul_add, dot2 and 32 fma variants (apmath.fma and apmath_algorithms.fma_real x a7/a8/a9/apmath "
        "x fix_overflow x possibly_zero_z) in float16/32/64 on constructed operands (products at ties/binade edges, z = -RN(xy)(1+-j eps), "
        "z = +-ulp(xy)/2 (1+-eps), tiny/huge/zero z, exponent gaps 0..p+2, cancellation chains, domain edges) vs the exact rational result "
        "rounded once. Non-trivial = in-domain case whose exact result is not representable / neighbour step crossing a binade; distinct by "
        "(subject, format, operands)."
    )
    ctx.assumptions = [
        "harness/flt.py RN and lattice index",
        "fma without fix_overflow is asserted only where no intermediate can overflow (|x|,|y|,|xy|,|z| <= largest/4)",
        "sqrt(largest) domain bounds are evaluated with the integer square root (slightly inside the documented bound)",
    ]
    tasks = []
    # enumerations
    for s in range(8):
        tasks.append((16, s * 8192, (s + 1) * 8192, 1, (0,)))
    if q:
        for s in range(16):
            tasks.append((32, s << 28, (s + 1) << 28, 257 * 16 + 1, (0,)))
        tasks.append((64, 0, 200000, 1, (ctx.seed, 11, 64)))
    else:
        for s in range(256):
            tasks.append((32, s << 24, (s + 1) << 24, 1, (0,)))
        for s in range(16):
            tasks.append((64, 0, 2000000, 1, (ctx.seed, 11, 64, s)))
    ctx.pmap(_enum_shard, tasks)
    if not q:
        ctx.note("float32_exhaustive_next_and_is_power_of_two", True)
    ctx.note("float16_exhaustive_next_and_is_power_of_two", True)
    n = 15000 if q else 400000
    names = ["add_3sum", "add_4sum", "mul_add", "dot2"] + FMA_NAMES
    t2 = []
    for fb in (16, 32, 64):
        for k, nm in enumerate(names):
            t2.append((nm, fb, (ctx.seed, 11, fb, k), n if nm.startswith("fma/") else n * 4))
    ctx.pmap(_shard, t2)
