"""C16 — polynomial utilities are exact polynomial algebra (over Fractions).

Oracle: direct definitions in rational arithmetic written here.
"""

import warnings
from fractions import Fraction

from harness import hyp
from harness.runner import Partial

warnings.filterwarnings("ignore")
st = hyp.st


class QCtx:
    """Minimal exact context for the fpa polynomial helpers."""

    def constant(self, v, like=None):
        return Fraction(v)

    def reciprocal(self, x):
        return 1 / Fraction(x)


def peval(c, x):
    """sum c[i] x^i, directly."""
    s = Fraction(0)
    xp = Fraction(1)
    for a in c:
        s += a * xp
        xp *= x
    return s


def strip(c):
    c = list(c)
    while c and c[-1] == 0:
        c.pop()
    return c


def pmul(P, Q):
    out = [Fraction(0)] * (len(P) + len(Q) - 1) if P and Q else []
    for i, a in enumerate(P):
        for j, b in enumerate(Q):
            out[i + j] += a * b
    return out


def padd(P, Q):
    n = max(len(P), len(Q))
    return [(P[i] if i < len(P) else 0) + (Q[i] if i < len(Q) else 0) for i in range(n)]


SCHEMES = ("default", "horner", "estrin", "balanced", "canonical")


def _scheme(mod, name):
    return {
        "default": None,
        "horner": mod.horner_scheme,
        "estrin": mod.estrin_dac_scheme,
        "balanced": mod.balanced_dac_scheme,
        "canonical": mod.canonical_scheme,
    }[name]


def F(s):
    return Fraction(s)


def enc(c):
    return [str(Fraction(a)) for a in c]


def check(case):
    """case: dict(subject=..., args...). Returns violations."""
    import functional_algorithms.polynomial as poly
    import functional_algorithms.floating_point_algorithms as fpa

    sub = case["subject"]
    c = [F(a) for a in case.get("coeffs", [])]
    x = F(case.get("x", "0"))
    rev = case.get("reverse", False)
    qc = QCtx()
    N = len(c) - 1
    feat = "deg%s" % ("0" if N == 0 else "1" if N == 1 else "2" if N == 2 else "3+")

    def guard(fn, cls):
        try:
            return fn(), None
        except RecursionError as e:
            return None, (cls + "/RecursionError", repr(e)[:100])
        except Exception as e:  # exact algebra on valid input must not raise
            return None, (cls + "/" + type(e).__name__, repr(e)[:200])

    if sub in ("poly.fast_polynomial", "fpa.fast_polynomial", "fpa.horner"):
        want = peval(c[::-1] if rev else c, x)
        if sub == "poly.fast_polynomial":
            got, err = guard(lambda: poly.fast_polynomial(x, list(c), reverse=rev, scheme=_scheme(poly, case["scheme"])), sub)
            cls = "%s/%s" % (sub, case["scheme"])
        elif sub == "fpa.fast_polynomial":
            got, err = guard(lambda: fpa.fast_polynomial(qc, x, list(c), reverse=rev, scheme=_scheme(fpa, case["scheme"])), sub)
            cls = "%s/%s" % (sub, case["scheme"])
        else:
            got, err = guard(lambda: fpa.horner(qc, x, list(c), reverse=rev), sub)
            cls = "%s/reverse=%s" % (sub, rev)
        if err:
            return [err]
        if got != want:
            return [(cls, "%s(x=%s, coeffs=%s, reverse=%s) = %s, exact value %s" % (cls, x, enc(c), rev, got, want))]
        return []
    if sub == "fpa.laurent":
        m = case["m"]
        cc = c[::-1] if rev else c
        want = sum((a * x ** (j + m) for j, a in enumerate(cc)), Fraction(0))
        got, err = guard(lambda: fpa.laurent(qc, x, list(c), m, reverse=rev, scheme=_scheme(fpa, case["scheme"])), sub)
        if err:
            return [err]
        if got != want:
            kind = "m0" if m == 0 else "mpos" if m > 0 else ("mneg-inside" if -m < len(c) else "mneg-outside")
            return [("fpa.laurent/%s/reverse=%s/%s" % (kind, rev, case["scheme"]), "laurent(z=%s, C=%s, m=%d, reverse=%s)=%s, exact %s" % (x, enc(c), m, rev, got, want))]
        return []
    if sub in ("poly.rpolynomial", "fpa.rpolynomial"):
        # ratio form: coefficients non-zero (documented domain)
        cc = c[::-1] if rev else c
        want = peval(cc, x)
        rc, err = guard(lambda: poly.asrpolynomial(list(c), reverse=rev), "poly.asrpolynomial")
        if err:
            return [err]
        # conversion back: coefficient i is the product of the first i+1 ratios
        rr = rc[::-1] if rev else rc
        back = []
        pr = Fraction(1)
        for r in rr:
            pr *= r
            back.append(pr)
        if back != cc:
            return [("poly.asrpolynomial/reverse=%s" % rev, "asrpolynomial(%s, reverse=%s)=%s does not convert back" % (enc(c), rev, enc(rc)))]
        if sub == "poly.rpolynomial":
            got, err = guard(lambda: poly.rpolynomial(x, rc, reverse=rev), sub)
        else:
            got, err = guard(lambda: fpa.rpolynomial(qc, x, rc, reverse=rev), sub)
        if err:
            return [err]
        if got != want:
            return [("%s/reverse=%s" % (sub, rev), "%s(x=%s, asrpolynomial(%s))=%s, exact %s" % (sub, x, enc(c), got, want))]
        return []
    if sub in ("poly.multiply", "poly.add"):
        d = [F(a) for a in case["coeffs2"]]
        fn = poly.multiply if sub == "poly.multiply" else poly.add
        P, Q = (c[::-1], d[::-1]) if rev else (c, d)
        want = pmul(P, Q) if sub == "poly.multiply" else padd(P, Q)
        if case.get("scalar"):
            got, err = guard(lambda: fn(list(c), d[0], reverse=rev), sub)
            Q = [d[0]]
            want = pmul(P, Q) if sub == "poly.multiply" else padd(P, Q)
        else:
            got, err = guard(lambda: fn(list(c), list(d), reverse=rev), sub)
        if err:
            return [err]
        g = got[::-1] if rev else got
        if rev and sub == "poly.add" and len(c) != len(d):
            # reversed (highest-first) lists of different length: alignment is by highest power after reversal
            pass
        if strip(g) != strip(want) or peval(g, x) != peval(want, x):
            return [("%s/reverse=%s" % (sub, rev), "%s(%s, %s, reverse=%s)=%s, exact %s" % (sub, enc(c), enc(d), rev, enc(got), enc(want[::-1] if rev else want)))]
        return []
    if sub == "poly.derivative":
        n = case["n"]
        P = c[::-1] if rev else c
        want = list(P)
        for _ in range(n):
            want = [want[i] * i for i in range(1, len(want))]
        got, err = guard(lambda: poly.derivative(list(c), n=n, reverse=rev), sub)
        if err:
            return [err]
        g = got[::-1] if rev else got
        if list(g) != want:
            return [("%s/reverse=%s" % (sub, rev), "derivative(%s, n=%d, reverse=%s)=%s, exact %s" % (enc(c), n, rev, enc(got), enc(want)))]
        return []
    if sub == "poly.taylorat":
        z0 = F(case["z0"])
        size = case.get("size")
        P = c[::-1] if rev else c
        got, err = guard(lambda: poly.taylorat(list(c), z0, reverse=rev, size=size) if size is not None else poly.taylorat(list(c), z0, reverse=rev), sub)
        if err:
            return [err]
        g = got[::-1] if rev else got
        # re-expansion: sum g[m] (z - z0)^m == P(z) as polynomials: compare coefficients by expanding
        if size is None or size >= len(P):
            acc = []
            pw = [Fraction(1)]
            for a in g:
                acc = padd(acc, [a * t for t in pw])
                pw = pmul(pw, [-z0, Fraction(1)])
            ok = strip(acc) == strip(P) and peval(g, x - z0) == peval(P, x)
        else:
            # first `size` Taylor coefficients: C_m = P^(m)(z0)/m!
            ok = True
            D = list(P)
            fact = 1
            for m_ in range(size):
                if m_ > 0:
                    D = [D[i] * i for i in range(1, len(D))]
                    fact *= m_
                if g[m_] != peval(D, z0) / fact:
                    ok = False
            ok = ok and len(g) == size
        if not ok:
            return [("%s/reverse=%s/size=%s" % (sub, rev, "none" if size is None else "given"), "taylorat(%s, %s, reverse=%s, size=%s)=%s is not the re-expansion" % (enc(c), z0, rev, size, enc(got)))]
        return []
    if sub == "poly.divmod":
        d = [F(a) for a in case["coeffs2"]]
        res, err = guard(lambda: poly.divmod(list(c), list(d), reverse=rev), sub)
        if err:
            return [err]
        Qg, Rg = res
        P, D = (c[::-1], d[::-1]) if rev else (c, d)
        Q, R = (Qg[::-1], Rg[::-1]) if rev else (Qg, Rg)
        recon = padd(pmul(list(Q), D), list(R))
        bad = []
        if strip(recon) != strip(P):
            bad.append(("poly.divmod/identity/reverse=%s" % rev, "divmod(%s, %s, reverse=%s) = (%s, %s): Q*D+R != P" % (enc(c), enc(d), rev, enc(Qg), enc(Rg))))
        if len(strip(R)) >= len(strip(D)):
            bad.append(("poly.divmod/degree/reverse=%s" % rev, "divmod(%s, %s): deg R >= deg D (R=%s)" % (enc(c), enc(d), enc(Rg))))
        return bad
    raise ValueError(sub)


def replay(case):
    return check(case)


def coeff():
    small = st.builds(Fraction, st.integers(-9, 9), st.integers(1, 7))
    big = st.builds(Fraction, st.integers(-(10**6), 10**6), st.integers(1, 10**4))
    return st.one_of(st.just(Fraction(0)), small, small, big, st.sampled_from([Fraction(1), Fraction(-1)]))


def nzcoeff():
    return coeff().filter(lambda q: q != 0)


@st.composite
def polys(draw, min_len=1, max_len=41, nonzero=False, allow_long=False):
    if allow_long and draw(st.integers(0, 39)) == 0:
        n = draw(st.integers(501, 520))
        return [Fraction(draw(st.integers(-3, 3))) for _ in range(n)]
    n = draw(st.one_of(st.integers(min_len, min(6, max_len)), st.integers(min_len, max_len)))
    c = draw(st.lists(nzcoeff() if nonzero else coeff(), min_size=n, max_size=n))
    if not nonzero:
        z = draw(st.sampled_from(["none", "leading", "trailing", "both", "none"]))
        k = draw(st.integers(1, 2))
        if z in ("leading", "both"):
            for i in range(min(k, len(c))):
                c[-1 - i] = Fraction(0)
        if z in ("trailing", "both"):
            for i in range(min(k, len(c))):
                c[i] = Fraction(0)
    return c


@st.composite
def cases(draw):
    sub = draw(
        st.sampled_from(
            [
                "poly.fast_polynomial",
                "poly.fast_polynomial",
                "fpa.fast_polynomial",
                "fpa.fast_polynomial",
                "fpa.horner",
                "fpa.laurent",
                "poly.rpolynomial",
                "fpa.rpolynomial",
                "poly.multiply",
                "poly.add",
                "poly.derivative",
                "poly.taylorat",
                "poly.divmod",
                "poly.divmod",
            ]
        )
    )
    case = {"subject": sub, "reverse": draw(st.booleans())}
    xs = st.one_of(st.just(Fraction(0)), st.builds(Fraction, st.integers(-12, 12), st.integers(1, 5)))
    if sub in ("poly.fast_polynomial", "fpa.fast_polynomial", "fpa.horner"):
        long_ok = sub != "fpa.horner"
        c = draw(polys(allow_long=long_ok))
        case["coeffs"] = enc(c)
        case["x"] = str(draw(st.sampled_from([Fraction(1), Fraction(-1), Fraction(2)])) if len(c) > 100 else draw(xs))
        case["scheme"] = draw(st.sampled_from(SCHEMES))
    elif sub == "fpa.laurent":
        c = draw(polys(max_len=12))
        case["coeffs"] = enc(c)
        case["m"] = draw(st.integers(-len(c) - 3, 4))
        case["x"] = str(draw(xs.filter(lambda q: q != 0)))
        case["scheme"] = draw(st.sampled_from(SCHEMES))
    elif sub in ("poly.rpolynomial", "fpa.rpolynomial"):
        case["coeffs"] = enc(draw(polys(nonzero=True, max_len=20)))
        case["x"] = str(draw(xs))
    elif sub in ("poly.multiply", "poly.add"):
        case["coeffs"] = enc(draw(polys(max_len=15)))
        case["coeffs2"] = enc(draw(polys(max_len=15)))
        case["scalar"] = draw(st.integers(0, 5)) == 0
        case["x"] = str(draw(xs))
        # reversed (highest power first) lists of unequal length are kept: the documented result is the coefficient list
        # of polynomial(P, x) + polynomial(Q, x), i.e. the lists are aligned at the constant term
    elif sub == "poly.derivative":
        case["coeffs"] = enc(draw(polys(max_len=15)))
        case["n"] = draw(st.integers(0, 3))
    elif sub == "poly.taylorat":
        c = draw(polys(max_len=12))
        case["coeffs"] = enc(c)
        case["z0"] = str(draw(xs))
        case["x"] = str(draw(xs))
        if not case["reverse"] and draw(st.booleans()):
            case["size"] = draw(st.integers(1, len(c) + 2))
    elif sub == "poly.divmod":
        P = draw(polys(max_len=14))
        D = draw(polys(max_len=8).filter(lambda d: any(a != 0 for a in d)))
        if draw(st.integers(0, 3)) == 0:
            # build P = Q*D + R on purpose with zero quotient coefficients
            Q = draw(polys(max_len=6))
            for i in draw(st.lists(st.integers(0, len(Q) - 1), max_size=3)):
                Q[i] = Fraction(0)
            R = draw(polys(max_len=max(1, len(strip(D)) - 1))) if len(strip(D)) > 1 else []
            P = padd(pmul(Q, D), R) or [Fraction(0)]
        case["coeffs"] = enc(P)
        case["coeffs2"] = enc(D)
    return case


def nontrivial(case):
    c = case.get("coeffs", [])
    return len(c) >= 3 and any(Fraction(a) == 0 for a in c)


def _shard(task):
    from harness.runner import Ctx

    seed, shard, n, known = task
    sub = Ctx("C16", "quick", seed * 64 + shard, known)

    def body(case, part):
        part.count(1, "%s%s" % (case["subject"], ("/" + case["scheme"]) if "scheme" in case else ""))
        if nontrivial(case):
            part.nontrivial(case)
        if len(case.get("coeffs", [])) > 500:
            part.label("long>500")
        if len(part.samples) < 1:
            part.sample(case)
        return check(case)

    hyp.drive(sub, cases(), body, n, stream=shard, max_classes=12)
    p = Partial()
    p.merge(sub)
    return p


def run(ctx):
    ctx.rule = (
        "Hypothesis-generated polynomials (degree 0..40, occasionally 501..520 coefficients; Fraction coefficients with zeros anywhere, "
        "forced leading/trailing zeros), evaluation points (0 included), schemes {default,horner,estrin,balanced,canonical} x reverse; "
        "Laurent exponent m from -len-3..4; ratio form on non-zero coefficients; multiply/add (list and scalar), derivative n=0..3, "
        "taylorat (+-size), divmod incl. constructed P=Q*D+R with zero quotient coefficients. Oracle: direct rational definitions. "
        "Non-trivial = at least 3 coefficients with at least one zero coefficient; distinct by full case."
    )
    ctx.assumptions = ["python Fractions are exact", "for reversed poly.add only equal-length lists are generated (alignment rule undocumented)"]
    n = 1500 if ctx.quick else 40000
    ctx.pmap(_shard, [(ctx.seed, s, n, ctx.known) for s in range(16)])
