"""C07 — expression identity is structural identity (sound and complete hash-consing).

A Hypothesis RuleBasedStateMachine builds expressions in a fresh Context (optionally with the alternative constant
context enabled).  After every construction an independent structural model is consulted:

  model key  = (kind, ids of the operand objects)                      for operations
               ("constant", type name of the value, exact bits of the value, id of the like operand)   for constants
               ("symbol", name, id of the Type object)                 for symbols

Invariants: same model key <=> same object (NaN constants exempt from "=>"); read-back of kind / operand identities /
constant value bits equals what was passed in; intkey unique and stable; Type objects are singletons.
Histories are lists of plain steps, so a failing (shrunk) history replays without Hypothesis.
"""

import math
import struct
import warnings

import numpy as np

from harness import hyp
from harness.hyp import MachineViolation
from harness.runner import Partial

warnings.filterwarnings("ignore")
st = hyp.st


# ------------------------------------------------------------ values


def decode_value(v):
    t, x = v
    if t == "int":
        return int(x)
    if t == "bool":
        return bool(x)
    if t == "float":
        return float.fromhex(x) if x not in ("nan", "-nan") else (float("nan") if x == "nan" else -float("nan"))
    if t == "complex":
        return complex(decode_value(("float", x[0])), decode_value(("float", x[1])))
    if t == "str":
        return x
    if t in ("float16", "float32", "float64"):
        return np.array(int(x), dtype={"float16": np.uint16, "float32": np.uint32, "float64": np.uint64}[t]).view(getattr(np, t))[()]
    if t in ("int32", "int64"):
        return getattr(np, t)(int(x))
    if t in ("complex64", "complex128"):
        ft = np.float32 if t == "complex64" else np.float64
        ut = np.uint32 if t == "complex64" else np.uint64
        z = np.zeros(1, dtype=getattr(np, t))
        z.view(ft)[0] = np.array(int(x[0]), dtype=ut).view(ft)
        z.view(ft)[1] = np.array(int(x[1]), dtype=ut).view(ft)
        return z[0]
    raise ValueError(t)


def value_key(val):
    """(type name, exact bits) of a constant value: the notion of 'same value' used by the property."""
    if isinstance(val, np.generic):  # first: numpy.float64/complex128 are subclasses of float/complex
        return (type(val).__name__, val.tobytes())
    if isinstance(val, bool):
        return ("bool", val)
    if isinstance(val, int):
        return ("int", val)
    if isinstance(val, float):
        return ("float", struct.pack("<d", val))
    if isinstance(val, complex):
        return ("complex", struct.pack("<dd", val.real, val.imag))
    if isinstance(val, str):
        return ("str", val)
    return ("?" + type(val).__name__, repr(val))


def is_nan_value(val):
    try:
        if isinstance(val, (complex, np.complexfloating)):
            return math.isnan(val.real) or math.isnan(val.imag)
        if isinstance(val, (float, np.floating)):
            return bool(np.isnan(val))
    except Exception:
        pass
    return False


FLOAT_HEX = ["0x0p+0", "-0x0p+0", "0x1p+0", "-0x1p+0", "0x1p-1", "0x1.8p+0", "0x1p+1", "0x1.fffffffffffffp+1023", "0x1p-1074", "inf", "-inf", "nan", "0x1.999999999999ap-4"]
F16 = [0x0000, 0x8000, 0x3C00, 0x0001, 0x7C00, 0x7E00]
F32 = [0x00000000, 0x80000000, 0x3F800000, 0x00000001, 0x7F800000, 0x7FC00000, 0x3F000000]
F64 = [0x0, 0x8000000000000000, 0x3FF0000000000000, 0x1, 0x7FF0000000000000, 0x7FF8000000000000, 0x4000000000000000]


def values():
    return st.one_of(
        st.tuples(st.just("int"), st.sampled_from([0, 1, -1, 2, 3, 10])),
        st.tuples(st.just("bool"), st.booleans()),
        st.tuples(st.just("float"), st.sampled_from(FLOAT_HEX)),
        st.tuples(st.just("float"), st.sampled_from(FLOAT_HEX)),
        st.tuples(st.just("complex"), st.tuples(st.sampled_from(FLOAT_HEX[:7]), st.sampled_from(FLOAT_HEX[:7]))),
        st.tuples(st.just("str"), st.sampled_from(["largest", "smallest", "eps", "pi", "posinf", "neginf", "nan", "smallest_subnormal"])),
        st.tuples(st.just("float16"), st.sampled_from(F16)),
        st.tuples(st.just("float32"), st.sampled_from(F32)),
        st.tuples(st.just("float64"), st.sampled_from(F64)),
        st.tuples(st.just("int64"), st.sampled_from([0, 1, -1])),
        st.tuples(st.just("int32"), st.sampled_from([0, 1])),
        st.tuples(st.just("complex64"), st.tuples(st.sampled_from(F32[:4]), st.sampled_from(F32[:4]))),
        st.tuples(st.just("complex128"), st.tuples(st.sampled_from(F64[:4]), st.sampled_from(F64[:4]))),
    )


RAW = st.one_of(
    st.tuples(st.just("int"), st.sampled_from([0, 1, -1, 2])),
    st.tuples(st.just("float"), st.sampled_from(FLOAT_HEX[:7] + ["inf"])),
)

TYPE_SPELLINGS = {
    "float32": ["float32", "np.float32", "Type"],
    "float64": ["float64", "np.float64", "Type"],
    "float16": ["float16", "np.float16"],
    "float": ["float", "py.float"],
    "complex64": ["complex64", "np.complex64"],
    "complex128": ["complex128", "np.complex128", "Type"],
    "boolean": ["boolean", "py.bool", "bool"],
    "integer64": ["int64", "np.int64"],
}

UNARY = ["negative", "positive", "absolute", "sqrt", "square", "exp", "log", "log1p", "sin", "cos", "asin", "acos", "atan", "asinh", "floor", "ceil", "sign", "is_finite", "upcast", "downcast"]
UNARY_C = ["real", "imag", "conjugate", "absolute", "negative", "square", "sqrt", "exp", "log"]
BINARY = ["add", "subtract", "multiply", "divide", "minimum", "maximum", "atan2", "hypot", "copysign", "pow", "remainder", "complex"]
COMPARE = ["lt", "le", "gt", "ge", "eq", "ne"]
LOGICAL2 = ["logical_and", "logical_or", "logical_xor"]
OPERATOR = {"add": lambda a, b: a + b, "subtract": lambda a, b: a - b, "multiply": lambda a, b: a * b, "divide": lambda a, b: a / b, "lt": lambda a, b: a < b, "ge": lambda a, b: a >= b, "eq": lambda a, b: a == b, "ne": lambda a, b: a != b}


class Bad(Exception):
    def __init__(self, cls, what):
        self.cls, self.what = cls, what


class World:
    """Executes history steps against a fresh Context and checks the model after each step."""

    def __init__(self, enable_alt):
        import functional_algorithms as fa

        self.fa = fa
        self.alt = bool(enable_alt)
        self.ctx = fa.Context(paths=[fa.algorithms], enable_alt=True, default_constant_type="float64") if enable_alt else fa.Context(paths=[fa.algorithms])
        self.objs = []  # (expr, tag) in construction order; tag in real/bool/complex/list/int
        self.registry = {}  # model key -> object
        self.seen = {}  # id(obj) -> (model key, intkey)
        self.keep = []  # keep every object alive so that id() stays unique
        self.stats = {"constructions": 0, "shared": 0, "near_miss": 0, "nan_consts": 0}
        self._nearmiss_seen = set()

    # ---- model
    def model_key(self, e):
        if e.kind == "symbol":
            return ("symbol", e.operands[0], id(e.operands[1]))
        if e.kind == "constant":
            v, like = e.operands
            vk = ("expr", id(v)) if isinstance(v, self.fa.Expr) else value_key(v)
            return ("constant", vk, id(like))
        return (e.kind,) + tuple(id(o) for o in e.operands)

    def audit(self, e, depth=0):
        """Register e and everything reachable from it; structural identity must be a bijection."""
        if not isinstance(e, self.fa.Expr):
            return
        if e.context is not self.ctx:
            return  # alt-context expressions live in their own registry
        if id(e) in self.seen:
            key, ik = self.seen[id(e)]
            if e.intkey != ik:
                raise Bad("intkey-unstable", "intkey of %r changed from %r to %r" % (e, ik, e.intkey))
            if self.model_key(e) != key:
                raise Bad("structure-mutated", "structure of %r changed after construction" % (e,))
            return
        for o in e.operands:
            if isinstance(o, self.fa.Expr):
                self.audit(o, depth + 1)
        key = self.model_key(e)
        self.keep.append(e)
        isnan = e.kind == "constant" and not isinstance(e.operands[0], self.fa.Expr) and is_nan_value(e.operands[0])
        prev = self.registry.get(key)
        if prev is not None and prev is not e and not isnan:
            raise Bad("incomplete/%s" % ("constant" if e.kind == "constant" else "operation"), "two distinct objects with identical structure %r: %r and %r" % (key[:2], prev, e))
        for k2, (o2key, ik2) in ():
            pass
        self.registry.setdefault(key, e)
        # intkey unique
        for other_id, (k2, ik2) in self.seen.items():
            if ik2 == e.intkey:
                raise Bad("intkey-duplicate", "intkey %r shared by two expressions" % (ik2,))
        self.seen[id(e)] = (key, e.intkey)

    def check_alias(self, e, want_key_desc):
        """Soundness: the returned object must not be an older object with a different structure."""
        pass

    # ---- steps
    def pick(self, i, tags=None):
        cand = [o for o in self.objs if tags is None or o[1] in tags]
        if not cand:
            return None
        return cand[i % len(cand)]

    def typ_from_spelling(self, name, sp):
        fa = self.fa
        if sp == "Type":
            return fa.typesystem.Type.fromobject(self.ctx, name)
        if sp.startswith("np."):
            return getattr(np, sp[3:])
        if sp == "py.float":
            return float
        if sp == "py.bool":
            return bool
        return sp

    def step(self, s):
        fa = self.fa
        ctx = self.ctx
        k = s[0]
        self.stats["constructions"] += 1
        if k == "symbol":
            _, name, tname, sp = s
            T1 = fa.typesystem.Type.fromobject(ctx, self.typ_from_spelling(tname, sp))
            T2 = fa.typesystem.Type.fromobject(ctx, TYPE_SPELLINGS[tname][0])
            if T1 is not T2:
                raise Bad("type-not-singleton", "Type for %s spelled %s is a different object than spelled %s" % (tname, sp, TYPE_SPELLINGS[tname][0]))
            e = ctx.symbol(name, self.typ_from_spelling(tname, sp))
            if e.kind != "symbol" or e.operands[0] != name or e.operands[1] is not T1:
                raise Bad("readback/symbol", "symbol(%r, %s) read back as %r" % (name, tname, e.operands))
            tag = "complex" if tname.startswith("complex") else "bool" if tname == "boolean" else "int" if tname.startswith("integer") else "real"
            self.finish(e, tag, ("symbol", name, id(T1)))
        elif k == "constant":
            _, v, like_i = s
            val = decode_value(v)
            like = self.pick(like_i, ("real", "complex", "bool", "int"))
            if like is None:
                return
            try:
                e = ctx.constant(val, like[0])
            except RuntimeError as ex:
                raise Bad("constant-raises", "constant(%r, like) raised %r" % (val, ex))
            if e.kind != "constant":
                raise Bad("readback/constant-kind", "constant() returned kind %s" % e.kind)
            got = e.operands[0]
            if isinstance(got, fa.Expr):
                # alternative context: the value is a constant of the alt context
                if got.kind != "constant":
                    raise Bad("readback/alt-constant", "alt value is %s" % got.kind)
                got = got.operands[0]
            if value_key(got) != value_key(val):
                zs = "zero-sign" if (not isinstance(val, str) and not is_nan_value(val) and val == got) and value_key(got)[0] == value_key(val)[0] else "value"
                raise Bad("readback/constant-%s" % zs, "constant(%r [%s], like) holds %r [%s]" % (val, value_key(val)[0], got, value_key(got)[0]))
            # the reference ("like") operand: a symbol is kept as it is (a composite like is normalised to one of its
            # sub-expressions by a documented rule that the model does not second-guess)
            if like[0].kind == "symbol":
                if e.operands[1] is not like[0]:
                    raise Bad("readback/constant-like", "constant(%r, like=symbol %s) refers to %r" % (val, like[0].operands[0], e.operands[1]))
            # whatever sub-expression the like is normalised to, it must be of the same kind of value as the like that was
            # passed (model tag of that operand): constant(v, abs(z)) is a real constant, not one "like z"
            try:
                tk = e.operands[1].get_type().kind
            except Exception:
                tk = None
            expect = {"real": "float", "complex": "complex", "bool": "boolean", "int": "integer"}[like[1]]
            # (only real vs complex is asserted, and not for likes that are constants themselves: their own like may be the
            # context's default one)
            # asserted only for likes that are real by construction (absolute / real / imag of something): other composite
            # likes are normalised to their first operand, which may legitimately be of the other kind (x_real / z_complex)
            if tk == "complex" and expect == "float" and like[0].kind in ("absolute", "real", "imag"):
                raise Bad("readback/constant-like-kind", "constant(%r, like=<%s %s expression>) refers to a like of kind %s" % (val, like[1], like[0].kind, tk))
            if is_nan_value(val):
                self.stats["nan_consts"] += 1
            self.note_near_miss(val, e.operands[1])
            self.finish(e, like[1], None)
        elif k in ("op", "opx"):
            _, kind, args = s
            ops = []
            for a in args:
                if a[0] == "e":
                    o = self.pick(a[1], a[2] if len(a) > 2 else None)
                    if o is None:
                        return
                    ops.append(o)
                else:
                    ops.append((decode_value(a[1]), "raw"))
            if all(o[1] == "raw" for o in ops):
                return
            # the typed generator keeps programs well formed; tags decide the result tag
            vals = [o[0] for o in ops]
            if k == "opx" and kind in OPERATOR and isinstance(vals[0], fa.Expr):
                e = OPERATOR[kind](vals[0], vals[1])
            else:
                e = getattr(ctx, kind)(*vals) if kind != "list" else ctx.list(vals)
            tags = [o[1] for o in ops if o[1] != "raw"]
            if kind in COMPARE or kind in LOGICAL2 or kind in ("logical_not", "is_finite"):
                tag = "bool"
            elif kind == "complex":
                tag = "complex"
            elif kind in ("real", "imag", "absolute"):
                tag = "real"
            elif kind == "list":
                tag = "list"
            elif kind == "select":
                tag = tags[1] if len(tags) > 1 else "real"
            else:
                tag = "complex" if "complex" in tags else tags[0]
            # read-back
            exp_kind = kind
            if kind == "pow" and not isinstance(vals[1], fa.Expr):
                if isinstance(vals[1], float) and vals[1] == 0.5:
                    exp_kind, vals = "sqrt", vals[:1]
                elif isinstance(vals[1], int) and not isinstance(vals[1], bool) and vals[1] == 2:
                    exp_kind, vals = "square", vals[:1]
            folded = self.alt and kind != "list" and all((not isinstance(v, fa.Expr)) or v.kind == "constant" for v in vals)
            if folded:
                if e.kind != "constant":
                    raise Bad("readback/alt-fold", "%s of constants in an alt-enabled context returned %s" % (kind, e.kind))
            else:
                if e.kind != exp_kind or len(e.operands) != len(vals):
                    raise Bad("readback/kind", "%s(...) returned kind %s with %d operands" % (kind, e.kind, len(e.operands)))
                for i, (v, o) in enumerate(zip(vals, e.operands)):
                    if isinstance(v, fa.Expr):
                        if o is not v:
                            raise Bad("readback/operand-identity", "operand %d of %s is not the object passed in" % (i, kind))
                    else:
                        ov = o.operands[0] if o.kind == "constant" else None
                        if isinstance(ov, fa.Expr):
                            ov = ov.operands[0] if ov.kind == "constant" else None
                        # Python numbers are normalised to constants; float defaults may retype ints in alt contexts
                        if o.kind != "constant" or ov is None or (value_key(ov) != value_key(v) and not (self.alt and ov == v)):
                            raise Bad("readback/raw-operand%s" % ("-zero-sign" if (o.kind == "constant" and ov is not None and ov == v and type(ov) is type(v)) else ""), "raw operand %r of %s became %r" % (v, kind, ov))
            self.finish(e, tag, None)
        elif k == "rebuild":
            # rebuild an earlier expression from equal-but-not-identical ingredients: must return the same object
            o = self.pick(s[1])
            if o is None:
                return
            e0 = o[0]
            if e0.kind == "symbol":
                e = ctx.symbol(str(e0.operands[0]), e0.operands[1])
            elif e0.kind == "constant":
                v = e0.operands[0]
                if isinstance(v, fa.Expr):
                    return
                try:
                    v2 = decode_value(encode_value(v))  # a fresh, equal value object
                except (KeyError, ValueError):
                    return  # value types created by the rewriter (e.g. longdouble) that the harness does not re-create
                if is_nan_value(v2):
                    return
                e = ctx.constant(v2, e0.operands[1])
            elif e0.kind in ("apply",):
                return
            else:
                e = fa.Expr(ctx, e0.kind, tuple(e0.operands))
            if e is not e0:
                raise Bad("incomplete/rebuild-%s" % ("constant" if e0.kind == "constant" else "symbol" if e0.kind == "symbol" else "operation"), "rebuilding %r from equal ingredients returned a different object" % (e0,))
            self.stats["shared"] += 1
            self.finish(e, o[1], None)
        elif k == "rewrite":
            o = self.pick(s[1], ("real", "bool", "complex"))
            if o is None:
                return
            import contextlib, io

            import signal

            def _alarm(signum, frame):
                raise TimeoutError("rewrite safety timeout")

            old_handler = signal.signal(signal.SIGALRM, _alarm)
            signal.alarm(5)  # safety only: a rewriter that does not terminate is C04's business, the step is skipped
            try:
                with contextlib.redirect_stdout(io.StringIO()):
                    e = o[0].rewrite(fa.rewrite)
            except Exception:
                return  # rewriter failures are property C04's business
            finally:
                signal.alarm(0)
                signal.signal(signal.SIGALRM, old_handler)
            self.finish(e, o[1], None)

    def note_near_miss(self, val, like):
        if isinstance(val, str) or is_nan_value(val):
            return
        try:
            base = (complex(val), id(like))
        except Exception:
            return
        vk = value_key(val)
        for (b, vk2) in list(self._nearmiss_seen):
            if b == base and vk2 != vk:
                self.stats["near_miss"] += 1
                break
        self._nearmiss_seen.add((base, vk))

    def finish(self, e, tag, expected_key):
        n_before = len(self.seen)
        was_seen = id(e) in self.seen
        self.audit(e)
        if was_seen:
            self.stats["shared"] += 1
        self.objs.append((e, tag))


def encode_value(val):
    if isinstance(val, np.floating):
        ut = {2: np.uint16, 4: np.uint32, 8: np.uint64}[val.dtype.itemsize]
        return (type(val).__name__, int(np.asarray(val).view(ut)))
    if isinstance(val, np.integer):
        return (type(val).__name__, int(val))
    if isinstance(val, np.complexfloating):
        ft, ut = (np.float32, np.uint32) if val.dtype == np.complex64 else (np.float64, np.uint64)
        return (type(val).__name__, (int(np.asarray(ft(val.real)).view(ut)), int(np.asarray(ft(val.imag)).view(ut))))
    if isinstance(val, bool):
        return ("bool", val)
    if isinstance(val, int):
        return ("int", val)
    if isinstance(val, float):
        return ("float", "nan" if math.isnan(val) else val.hex())
    if isinstance(val, complex):
        return ("complex", (val.real.hex(), val.imag.hex()))
    if isinstance(val, str):
        return ("str", val)
    if isinstance(val, np.floating):
        ut = {2: np.uint16, 4: np.uint32, 8: np.uint64}[val.dtype.itemsize]
        return (type(val).__name__, int(np.asarray(val).view(ut)))
    if isinstance(val, np.integer):
        return (type(val).__name__, int(val))
    if isinstance(val, np.complexfloating):
        ft, ut = (np.float32, np.uint32) if val.dtype == np.complex64 else (np.float64, np.uint64)
        return (type(val).__name__, (int(np.asarray(ft(val.real)).view(ut)), int(np.asarray(ft(val.imag)).view(ut))))
    raise ValueError(type(val))


def run_history(history):
    """Replay a plain history; returns (violations, stats)."""
    w = World(history.get("alt", False))
    try:
        for s in history["steps"]:
            w.step(tuple(s) if not isinstance(s, tuple) else s)
    except Bad as b:
        return [(b.cls, b.what)], w.stats
    except (RuntimeError, AssertionError) as e:
        return [("construction-raises-" + type(e).__name__, "step %r raised %r" % (s, e))], w.stats
    return [], w.stats


def _fix_step(s):
    """JSON round trip turns tuples into lists; restore the shapes the executor expects."""
    s = list(s)
    if s[0] == "constant":
        s[1] = tuple(s[1]) if not isinstance(s[1][1], list) else (s[1][0], tuple(s[1][1]))
    if s[0] in ("op", "opx"):
        s[2] = [((a[0], a[1], tuple(a[2])) if len(a) > 2 else tuple(a)) if a[0] == "e" else ("raw", tuple(a[1])) for a in s[2]]
    return tuple(s)


def replay(case):
    return run_history({"alt": case.get("alt", False), "steps": [_fix_step(s) for s in case["steps"]]})[0]


# ------------------------------------------------------------ the state machine


def make_machine(enable_alt):
    from hypothesis.stateful import RuleBasedStateMachine, initialize, rule

    class HashConsing(RuleBasedStateMachine):
        _excluded = set()
        _part = None
        _last = None

        def __init__(self):
            super().__init__()
            self.w = World(enable_alt)
            self.history = []

        def do(self, s):
            self.history.append(s)
            try:
                try:
                    self.w.step(s)
                except (RuntimeError, AssertionError) as e:
                    # the registry itself refusing a well-formed construction (e.g. "attempt to re-register equivalent
                    # expression") is a hash-consing failure, not a harness error
                    raise Bad("construction-raises-" + type(e).__name__, "step %r raised %r" % (s, e))
                except (NotImplementedError, TypeError) as e:
                    type(self)._part.skip("library-" + type(e).__name__)
                    return
            except Bad as b:
                if b.cls in type(self)._excluded:
                    if b.cls in getattr(type(self), "_known_open", ()):
                        type(self)._part.excluded_known += 1
                    # continue behind a known finding: drop the offending step from the world view
                    return
                v = MachineViolation(b.cls, b.what, {"alt": enable_alt, "steps": [list(x) for x in self.history]})
                type(self)._last = v
                raise v

        @initialize(t=st.sampled_from(["float32", "float64"]), sp=st.integers(0, 2))
        def first_symbol(self, t, sp):
            self.do(("symbol", "x", t, TYPE_SPELLINGS[t][sp % len(TYPE_SPELLINGS[t])]))

        @rule(name=st.sampled_from(["x", "y", "z", "w"]), t=st.sampled_from(sorted(TYPE_SPELLINGS)), sp=st.integers(0, 2))
        def symbol(self, name, t, sp):
            if enable_alt and t in ("float16", "float", "integer64", "boolean"):
                t = "float64"
            self.do(("symbol", name, t, TYPE_SPELLINGS[t][sp % len(TYPE_SPELLINGS[t])]))

        @rule(v=values(), like=st.integers(0, 50))
        def constant(self, v, like):
            if enable_alt and v[0] in ("str",):
                return
            self.do(("constant", v, like))

        @rule(kind=st.sampled_from(UNARY), a=st.integers(0, 50))
        def unary(self, kind, a):
            self.do(("op", kind, [("e", a, ("real",))]))

        @rule(kind=st.sampled_from(UNARY_C), a=st.integers(0, 50))
        def unary_complex(self, kind, a):
            self.do(("op", kind, [("e", a, ("complex",))]))

        @rule(kind=st.sampled_from(BINARY + COMPARE), a=st.integers(0, 50), b=st.integers(0, 50), raw=st.one_of(st.none(), st.none(), RAW), left=st.booleans(), opx=st.booleans())
        def binary(self, kind, a, b, raw, left, opx):
            A = ("e", a, ("real",))
            B = ("e", b, ("real",)) if raw is None else ("raw", raw)
            args = [B, A] if (left and raw is not None) else [A, B]
            self.do(("opx" if opx and kind in OPERATOR else "op", kind, args))

        @rule(kind=st.sampled_from(["add", "subtract", "multiply", "divide"]), a=st.integers(0, 50), b=st.integers(0, 50))
        def binary_complex(self, kind, a, b):
            self.do(("op", kind, [("e", a, ("complex",)), ("e", b, ("complex", "real"))]))

        @rule(kind=st.sampled_from(LOGICAL2), a=st.integers(0, 50), b=st.integers(0, 50))
        def logical(self, kind, a, b):
            self.do(("op", kind, [("e", a, ("bool",)), ("e", b, ("bool",))]))

        @rule(a=st.integers(0, 50))
        def logical_not(self, a):
            self.do(("op", "logical_not", [("e", a, ("bool",))]))

        @rule(c=st.integers(0, 50), a=st.integers(0, 50), b=st.integers(0, 50), raw=st.one_of(st.none(), RAW))
        def select(self, c, a, b, raw):
            B = ("e", b, ("real",)) if raw is None else ("raw", raw)
            self.do(("op", "select", [("e", c, ("bool",)), ("e", a, ("real",)), B]))

        @rule(items=st.lists(st.integers(0, 50), min_size=1, max_size=3))
        def make_list(self, items):
            self.do(("op", "list", [("e", i, ("real", "complex")) for i in items]))

        @rule(
            a=st.integers(0, 50),
            raws=st.sampled_from(
                [
                    [("float", "0x0p+0"), ("float", "-0x0p+0")],
                    [("float", "-0x0p+0"), ("float", "0x0p+0")],
                    [("int", 1), ("float", "0x1p+0"), ("bool", True)],
                    [("float", "0x1p+0"), ("int", 1)],
                    [("bool", False), ("int", 0), ("float", "0x0p+0")],
                    [("int", 2), ("float", "0x1p+1")],
                    [("float", "0x1p+1"), ("int", 2), ("int", 2)],
                ]
            ),
            first=st.booleans(),
        )
        def list_with_equal_raw_numbers(self, a, raws, first):
            # several raw Python numbers in ONE construction that compare equal (0.0 == -0.0, 1 == 1.0 == True) but are
            # different constants: each must become its own constant
            items = [("raw", r) for r in raws]
            items.insert(0 if first else len(items), ("e", a, ("real",)))
            self.do(("op", "list", items))

        @rule(i=st.integers(0, 200))
        def rebuild(self, i):
            self.do(("rebuild", i))

        @rule(i=st.integers(0, 200))
        def rewrite(self, i):
            self.do(("rewrite", i))

        def teardown(self):
            p = type(self)._part
            if p is None:
                return
            stx = self.w.stats
            p.count(1, "alt" if enable_alt else "plain")
            p.label("steps", len(self.history))
            if stx["shared"] >= 2 and stx["near_miss"] >= 1:
                p.nontrivial(repr(self.history))
            if stx["nan_consts"]:
                p.label("has-nan-constant")
            if stx["near_miss"]:
                p.label("has-near-miss-constants")
            if len(p.samples) < 2 and len(self.history) > 8:
                p.sample({"alt": enable_alt, "steps": [list(x) for x in self.history[:25]], "stats": stx})

    HashConsing.__name__ = "HashConsingAlt" if enable_alt else "HashConsing"
    return HashConsing


def minimise(history, cls):
    def still(steps):
        try:
            return any(c == cls for c, _ in run_history({"alt": history["alt"], "steps": steps})[0])
        except Exception:
            return False

    def fix(s):
        return tuple(tuple(x) if isinstance(x, list) and x and not isinstance(x[0], (list, tuple)) else x for x in s)

    steps = [_fix_step(s) for s in history["steps"]]
    small = hyp.ddmin_steps(steps, still)
    return {"alt": history["alt"], "steps": [list(x) for x in small]}


def _shard(task):
    from harness.runner import Ctx

    seed, shard, n, steps, known, alt = task
    sub = Ctx("C07", "quick", seed * 64 + shard, known)
    hyp.drive_machine(sub, make_machine(alt), n, steps, name="alt" if alt else "", stream=shard, minimise=minimise)
    p = Partial()
    p.merge(sub)
    return p


def run(ctx):
    ctx.rule = (
        "RuleBasedStateMachine histories of expression constructions in a fresh Context (12 shards plain, 4 with the alternative "
        "constant context): symbols (names x types spelled as string/numpy type/Python type/Type object), constants (Python int/"
        "float/bool/complex, numpy float16/32/64, int32/64, complex64/128, +-0.0, NaN, +-inf, named constants; like = any earlier "
        "expression), unary/binary/comparison/logical/select/list operations on earlier expressions or raw Python numbers (either "
        "side, via Context methods or Python operators), rebuilding an earlier expression from equal-but-not-identical ingredients, "
        "rewriting an expression and using the result. After every step the structural model is audited for every reachable node. "
        "Non-trivial = history with >=2 constructions returning an already existing object and >=1 pair of near-miss constants "
        "(equal numeric value, different type or zero sign, same like operand); distinct by history."
    )
    ctx.assumptions = [
        "numpy.bool_ constants are outside the documented value types and not generated",
        "NaN constants are exempt from 'same value => same object' but must read back as NaN",
        "in an alt-enabled context all-constant operations fold into constants (documented); their kind is not read back",
    ]
    n, steps = (600, 40) if ctx.quick else (4000, 80)
    tasks = [(ctx.seed, s, n, steps, ctx.known, False) for s in range(12)] + [(ctx.seed, 20 + s, n, steps, ctx.known, True) for s in range(4)]
    ctx.pmap(_shard, tasks)
