"""C17 — argument reduction reconstructs its input.

Subjects: fpa.argument_reduction_exponent and fpa.argument_reduction_trigonometric under NumpyContext (vectorised, and the
scalar public entry point on a subsample).  Oracle: mpmath at a precision exceeding the exponent range (Ziv re-check at
double precision for borderline cases).
"""

import warnings
from fractions import Fraction

import numpy as np

from harness import flt
from harness.runner import Partial

warnings.filterwarnings("ignore")
np.seterr(all="ignore")

TRIG_J = {16: 2, 32: 5, 64: 18}
TRIG_TOL = {16: 10, 32: 1, 64: 1}


def mp():
    import mpmath

    return mpmath


def mpf_of(q, ctx):
    return ctx.mpf(q.numerator) / ctx.mpf(q.denominator)


def run_exp(fb, xbits, scalar=False):
    from functional_algorithms import floating_point_algorithms as fpa, utils

    f = flt.FMT[fb]
    c = utils.NumpyContext(f.ftype)
    x = np.asarray(xbits, dtype=np.uint64).astype(f.utype).view(f.ftype)
    if scalar:
        outs = [fpa.argument_reduction_exponent(c, v) for v in x]
        return [np.array([o[i] for o in outs], dtype=f.ftype) for i in range(3)]
    k, r, cc = fpa.argument_reduction_exponent(c, x)
    return [np.asarray(k, dtype=f.ftype), np.asarray(r, dtype=f.ftype), np.asarray(cc, dtype=f.ftype)]


def run_trig(fb, xbits, scalar=False):
    from functional_algorithms import floating_point_algorithms as fpa, utils

    f = flt.FMT[fb]
    c = utils.NumpyContext(f.ftype)
    x = np.asarray(xbits, dtype=np.uint64).astype(f.utype).view(f.ftype)
    # the implementation accepts scalars only (it calls float() on intermediate words): always the public entry point
    outs = [fpa.argument_reduction_trigonometric(c, v) for v in x]
    return [np.array([o[i] for o in outs], dtype=f.ftype) for i in range(3)]


def judge_exp(fb, xb, kb, rb, cb):
    f = flt.FMT[fb]
    m = mp()
    X = flt.bits2frac(xb, f)
    x = flt.bits_scalar(xb, f)
    with m.workprec(4 * f.p + 64 + f.ebits * 2 + 64):
        ln2 = m.log(2)
        if not abs(mpf_of(X, m.mp)) < m.log(mpf_of(f.largest, m.mp)):
            return "out", []
        if not all(flt.is_finite_bits(b, f) for b in (kb, rb, cb)):
            return "in", [("exp/nonfinite", "argument_reduction_exponent(%r) returned non-finite (%r, %r, %r)" % (x, flt.bits_scalar(kb, f), flt.bits_scalar(rb, f), flt.bits_scalar(cb, f)))]
        K, R, C = (flt.bits2frac(b, f) for b in (kb, rb, cb))
        bad = []
        if K.denominator != 1:
            bad.append(("exp/k-not-integral", "k=%r for x=%r" % (float(K), x)))
            return "in", bad
        rc = mpf_of(R + C, m.mp)
        if abs(rc) > m.mpf("0.55") * ln2:
            bad.append(("exp/remainder-too-large", "|r+c| = %s > 0.55 ln2 for x=%r (k=%d)" % (m.nstr(abs(rc), 8), x, int(K))))
        resid = abs(int(K) * ln2 + rc - mpf_of(X, m.mp))
        u = mpf_of(flt.ulp_frac(X, f) if X != 0 else f.smallest_subnormal, m.mp)
        if resid > u:
            # second reading: the reconstruction evaluated in the format, lattice distance to x
            kk, rr, cc = flt.bits_scalar(kb, f), flt.bits_scalar(rb, f), flt.bits_scalar(cb, f)
            rec = kk * f.ftype(np.log(2)) + (rr + cc)
            d = abs(flt.index(flt.scalar_bits(rec), f) - flt.index(xb, f)) if np.isfinite(rec) else None
            if d is None or d > 1:
                bad.append(("exp/reconstruction", "x=%r: k*ln2+(r+c) misses x by %s ulp(x) (k=%d, r=%r, c=%r)" % (x, m.nstr(resid / u, 6), int(K), rr, cc)))
        return "in", bad


def judge_trig(fb, xb, kb, rb, tb):
    f = flt.FMT[fb]
    m = mp()
    X = flt.bits2frac(xb, f)
    x = flt.bits_scalar(xb, f)
    if abs(X) > f.largest / 2 ** TRIG_J[fb]:
        return "out", [], None
    tol = TRIG_TOL[fb]
    prec = f.emax + 4 * f.p + 128
    with m.workprec(prec):
        if not all(flt.is_finite_bits(b, f) for b in (kb, rb, tb)):
            return "in", [("trig/nonfinite", "argument_reduction_trigonometric(%r) returned non-finite values" % (x,))], None
        K, R, T = (flt.bits2frac(b, f) for b in (kb, rb, tb))
        bad = []
        if K not in (0, 1, 2, 3):
            return "in", [("trig/k-not-in-0..3", "k=%r for x=%r" % (float(K), x))], None
        pi = m.pi
        if abs(mpf_of(R, m.mp)) > m.mpf("1.1") * pi / 4:
            bad.append(("trig/r-too-large", "|r|=%r > 1.1 pi/4 for x=%r" % (float(R), x)))
        xm = mpf_of(X, m.mp)
        # true remainder for the returned k, reduced to (-pi, pi]
        rem = xm - int(K) * pi / 2
        rem = rem - 2 * pi * m.floor((rem + pi) / (2 * pi))
        rt = mpf_of(R + T, m.mp)
        resid = abs(rem - rt)
        if rem == 0:
            return "in", bad, 0
        remq = Fraction(int(m.floor(rem * m.mpf(2) ** (prec - 20)))) / Fraction(2) ** (prec - 20) if abs(rem) < 1 else None
        # ulp of the remainder in the format
        rem_f = Fraction(*map(int, m.mpf(rem).as_integer_ratio())) if hasattr(m.mpf(rem), "as_integer_ratio") else None
        if rem_f is None:
            man, exp = m.frexp(rem)
            rem_f = Fraction(int(m.floor(man * m.mpf(2) ** (prec)))) * Fraction(2) ** (int(exp) - prec)
        u = mpf_of(flt.ulp_frac(rem_f, f), m.mp)
        n_ulp = resid / u
        if n_ulp > tol:
            # second reading (the repository's own measure): lattice distance between fl(r+t) and RN(true remainder)
            rr, tt = flt.bits_scalar(rb, f), flt.bits_scalar(tb, f)
            got = flt.scalar_bits(rr + tt)
            want = flt.RN(rem_f, f)
            d = abs(flt.index(got, f) - flt.index(want, f))
            if d > tol:
                # how close is x to a multiple of pi/2 (relative)?  used for classification only
                # the open findings: the remainder is lost when it is tiny.  float16: relative to x (precision-limited for
                # every large x); float32/float64: in absolute terms (|remainder| < 2^-18 / 2^-40, measured on the unchanged
                # tree: all known failures lie below, and a relative criterion would be trivially true for every huge x and
                # hide any other defect of the large-argument path)
                if fb == 16:
                    rel = abs(rem) / abs(xm) if xm != 0 else 1
                    isnear = rel < m.mpf(2) ** (-(f.p - 4))
                else:
                    isnear = abs(rem) < m.mpf(2) ** (-{32: 18, 64: 40}[fb])
                near = "near-multiple-of-pi/2" if isnear else "generic"
                if fb == 32 and not isnear and abs(xm) >= abs(rem) * m.mpf(2) ** 124:
                    # float32 words cannot hold bits of 2/pi below 2^-149; the remainder needs bits down to about
                    # 2^-(e_x + p + log2(1/|r|)): the table is exhausted when |x| / |r| >= 2^124 (measured: every failure
                    # of the unchanged tree has |x| / |r| >= 2^126, the smallest x at 2^114.7 with |r| = 2^-13)
                    near = "two-over-pi-table-exhausted"
                bad.append(("trig/remainder/%s/f%d" % (near, fb), "x=%r: k=%d r+t=%r, true remainder %s: off by %s ulp (lattice %d), tolerance %d" % (x, int(K), rr + tt, m.nstr(rem, 12), m.nstr(n_ulp, 6), d, tol)))
        return "in", bad, float(n_ulp)


def replay(case):
    fb = case["fmt"]
    if case["kind"] == "exp":
        k, r, c = run_exp(fb, [case["x"]], scalar=True)
        return judge_exp(fb, case["x"], *(int(flt.np_bits(a)[0]) for a in (k, r, c)))[1]
    k, r, t = run_trig(fb, [case["x"]], scalar=True)
    return judge_trig(fb, case["x"], *(int(flt.np_bits(a)[0]) for a in (k, r, t)))[1]


# ----------------------------------------------------------------- generators


def hard_exp(f, rng, n):
    """RN(k ln2), RN((k+1/2) ln2) and +-1..8 ULP neighbours, both signs."""
    m = mp()
    out = []
    with m.workprec(200):
        kmax = int(m.floor(m.log(mpf_of(f.largest, m.mp)) / m.log(2)))
        ks = list(range(0, min(kmax, 64))) + [int(v) for v in rng.integers(0, kmax + 1, size=n)] + [kmax - 1, kmax]
        for k in ks:
            for h in (0, 0.5):
                v = (k + h) * m.log(2)
                q = Fraction(int(m.floor(v * m.mpf(2) ** 150))) / Fraction(2) ** 150
                b = flt.RN(q, f)
                if not flt.is_finite_bits(b, f):
                    continue
                i = flt.index(b, f)
                for d in (-8, -3, -2, -1, 0, 1, 2, 3, 8):
                    j = i + d
                    if 0 <= j <= f.largest_bits:
                        out.append(j)
                        out.append(f.sign_mask | j)
    return np.unique(np.array(out, dtype=np.uint64))


def uniform_k_exp(f, rng, n):
    """x ~ (k + u) ln2 with k uniform over the whole range of quotients (bit-uniform or log-uniform draws almost never
    reach large |k|) and u uniform in [-1/2, 1/2] or within a log-uniform distance of the rounding boundary +-1/2."""
    kmax = int(np.floor(np.log(float(f.largest)) / np.log(2.0)))
    k = rng.integers(-kmax, kmax + 1, size=n).astype(np.float64)
    u = rng.uniform(-0.5, 0.5, size=n)
    d = np.exp2(rng.uniform(-30, -3.3, size=n))  # distance from the boundary: 2^-30 .. 0.1
    edge = np.where(rng.random(n) < 0.5, 0.5 - d, -0.5 + d)
    u = np.where(rng.random(n) < 0.5, u, edge)
    with np.errstate(all="ignore"):
        x = ((k + u) * np.log(2.0)).astype(f.ftype)
    x = x[np.isfinite(x)]
    return flt.np_bits(x).astype(np.uint64)


def uniform_k_trig(f, rng, n):
    """x = RN((k + u) pi/2) with k log-uniform up to 2^(p-2) (beyond that one ULP of x exceeds the period) and u uniform in
    [-1/2, 1/2] or within a log-uniform distance of the quadrant boundary +-1/2."""
    m = mp()
    with m.workprec(400):
        hp = Fraction(int(m.floor((m.pi / 2) * m.mpf(2) ** 300))) / Fraction(2) ** 300
    limit = f.largest / 2 ** TRIG_J[f.bits]
    out = []
    ks = np.floor(np.exp2(rng.uniform(0, f.p - 2, size=n))).astype(np.int64)
    us = rng.uniform(-0.5, 0.5, size=n)
    ds = np.exp2(rng.uniform(-30, -3.3, size=n))
    sel = rng.random(n)
    sg = rng.random(n) < 0.5
    for k, u, d, c, g in zip(ks, us, ds, sel, sg):
        uu = u if c < 0.5 else ((0.5 - d) if g else (-0.5 + d))
        q = (Fraction(int(k)) + Fraction(float(uu))) * hp
        if 0 < q <= limit:
            out.append(flt.index(flt.RN(q, f), f))
    a = np.unique(np.array(out, dtype=np.uint64))
    return np.concatenate([a, a | np.uint64(f.sign_mask)])


def hard_trig(f, rng, n):
    """neighbours of RN(k pi/2) for small k, random k, and numerators of continued-fraction convergents of pi/2 up to the
    domain edge (the worst cases of argument reduction), the |x| < pi/4 transition, powers of two."""
    m = mp()
    out = []
    limit = f.largest / 2 ** TRIG_J[f.bits]
    with m.workprec(f.emax + 300):
        hp = m.pi / 2
        ks = list(range(1, 200)) + [int(v) for v in rng.integers(1, 1 << 20, size=n)]
        # continued fraction of pi/2: convergents p/q ~ pi/2  => p ~ q*pi/2 (p integer: representable when small)
        # more useful: floats x = m*2^e close to k*pi/2; generate via convergents of (2^e / (pi/2)) for every exponent
        for k in ks:
            v = k * hp
            q = Fraction(int(m.floor(v * m.mpf(2) ** 200))) / Fraction(2) ** 200
            if q > limit:
                continue
            b = flt.RN(q, f)
            i = flt.index(b, f)
            for d in (-2, -1, 0, 1, 2):
                out.append(i + d)
        # worst cases per binade: for x = M * 2^e (M < 2^p), M*2^e/(pi/2) close to an integer: convergents of 2^e/(pi/2)
        for e in range(-f.p, f.emax - TRIG_J[f.bits] - f.p + 1, 1 if f.bits == 16 else 7):
            alpha = m.mpf(2) ** e / hp
            # continued fraction convergents h_n/k_n of alpha: |k_n*alpha - h_n| small; M = k_n
            a = alpha
            h0, h1, k0, k1 = 1, int(m.floor(a)), 0, 1
            for _ in range(60):
                frac = a - m.floor(a)
                if frac == 0:
                    break
                a = 1 / frac
                ai = int(m.floor(a))
                h0, h1 = h1, ai * h1 + h0
                k0, k1 = k1, ai * k1 + k0
                if k1 >= (1 << f.p):
                    break
                if k1 >= 1:
                    q = Fraction(k1) * Fraction(2) ** e
                    if q <= limit and flt.is_representable(q, f):
                        out.append(flt.index(flt.RN(q, f), f))
        q4 = Fraction(int(m.floor((m.pi / 4) * m.mpf(2) ** 200))) / Fraction(2) ** 200
        i = flt.index(flt.RN(q4, f), f)
        out += list(range(i - 16, i + 17))
        for e in range(f.emin, f.emax - TRIG_J[f.bits]):
            out.append(flt.index(flt.RN(Fraction(2) ** e, f), f))
    lim_i = flt.index(flt.RN(limit, f), f)
    a = np.array([v for v in out if 0 < v <= lim_i], dtype=np.uint64)
    a = np.unique(a)
    return np.concatenate([a, a | np.uint64(f.sign_mask)])


def _shard(task):
    kind, fb, bits, scalar = task
    f = flt.FMT[fb]
    p = Partial()
    if not len(bits):
        return p
    if kind == "exp":
        k, r, c = run_exp(fb, bits, scalar)
        kb, rb, cb = (flt.np_bits(a).astype(np.uint64) for a in (k, r, c))
        for i in range(len(bits)):
            st, bad = judge_exp(fb, int(bits[i]), int(kb[i]), int(rb[i]), int(cb[i]))
            p.count(1, "exp/f%d/%s%s" % (fb, st, "/scalar-api" if scalar else ""))
            for cls, what in bad:
                p.violation(cls, what, {"kind": "exp", "fmt": fb, "x": int(bits[i])})
            if st == "in" and flt.bits2frac(int(kb[i]), f) != 0 if flt.is_finite_bits(int(kb[i]), f) else False:
                p.nontrivial(("exp", fb, int(bits[i])))
        i = len(bits) // 2
        p.sample({"kind": "exp", "fmt": fb, "x": flt.bits_scalar(int(bits[i]), f), "k": k[i], "r": r[i], "c": c[i]})
    else:
        k, r, t = run_trig(fb, bits, scalar)
        kb, rb, tb = (flt.np_bits(a).astype(np.uint64) for a in (k, r, t))
        worst = 0.0
        for i in range(len(bits)):
            st, bad, nu = judge_trig(fb, int(bits[i]), int(kb[i]), int(rb[i]), int(tb[i]))
            p.count(1, "trig/f%d/%s%s" % (fb, st, "/scalar-api" if scalar else ""))
            for cls, what in bad:
                p.violation(cls, what, {"kind": "trig", "fmt": fb, "x": int(bits[i])})
            if nu:
                worst = max(worst, nu)
            if st == "in" and flt.is_finite_bits(int(kb[i]), f) and flt.bits2frac(int(kb[i]), f) != 0:
                p.nontrivial(("trig", fb, int(bits[i])))
        p.note("trig_f%d_worst_ulp_seen_in_some_shard" % fb, round(worst, 3))
        i = len(bits) // 2
        p.sample({"kind": "trig", "fmt": fb, "x": flt.bits_scalar(int(bits[i]), f), "k": k[i], "r": r[i], "t": t[i]})
    return p


def run(ctx):
    q = ctx.quick
    ctx.rule = (
        "exponential reduction: every finite float16 with |x| < log(largest), float32/64 bit-uniform samples in the domain plus constructed "
        "hard cases RN(k ln2), RN((k+1/2) ln2) +-1..8 ULP for small and random k, and x = (k+u) ln2 with k uniform over the whole quotient range and u uniform or close to +-1/2; trigonometric reduction: every finite float16 with |x| <= "
        "largest/4, float32/64 bit-uniform samples in |x| <= largest/2^j plus neighbours of RN(k pi/2) (k<200 and random k<2^20), per-binade "
        "continued-fraction worst cases M*2^e closest to multiples of pi/2, x = (k+u) pi/2 with k log-uniform below 2^(p-2) and u uniform or close to +-1/2, the pi/4 transition +-16 ULP, powers of two; both signs; "
        "vectorised NumpyContext evaluation plus the scalar public entry point on a subsample. Oracle: mpmath at emax+4p+128 bits. "
        "Non-trivial = in-domain input with k != 0; distinct by (kind, format, x)."
    )
    ctx.assumptions = [
        "mpmath pi/log at the stated working precision",
        "a case is a violation only if it fails under both readings of 'within tol ULP': real-valued residual > tol*ulp and lattice distance of the float evaluation > tol",
        "trigonometric reduction is always called through its public scalar entry point; exponential reduction vectorised plus a scalar subsample",
    ]
    tasks = []
    for fb in (16, 32, 64):
        f = flt.FMT[fb]
        rng = ctx.rng(17, fb)
        if fb == 16:
            allb = flt.all_bits(f, finite=True).astype(np.uint64)
            eb = allb
            tb = allb
        else:
            n = 6000 if q else 400000
            eb = flt.np_bits(flt.random_bits_floats(rng, n, f, finite=True)).astype(np.uint64)
            # most random bit patterns are far outside |x| < log(largest): draw exponents inside the domain instead
            e = rng.integers(f.bias - 40, f.bias + 11, size=n).astype(np.uint64)
            eb = (eb & np.uint64(~f.exp_mask & ((1 << f.bits) - 1))) | (e << np.uint64(f.mbits))
            tb = flt.np_bits(flt.random_bits_floats(rng, n, f, finite=True)).astype(np.uint64)
            e = rng.integers(f.bias - 30, f.bias + f.emax - TRIG_J[fb], size=n).astype(np.uint64)
            tb = (tb & np.uint64(~f.exp_mask & ((1 << f.bits) - 1))) | (e << np.uint64(f.mbits))
        eb = np.unique(np.concatenate([eb, hard_exp(f, rng, 50 if q else 2000), uniform_k_exp(f, rng, 6000 if q else 400000)]))
        tb = np.unique(np.concatenate([tb, hard_trig(f, rng, 100 if q else 5000), uniform_k_trig(f, rng, 1500 if q else 60000)]))
        for ch in np.array_split(eb, 16):
            tasks.append(("exp", fb, ch, False))
        for ch in np.array_split(tb, 16):
            tasks.append(("trig", fb, ch, False))
        tasks.append(("exp", fb, eb[:: max(1, len(eb) // 300)], True))
        tasks.append(("trig", fb, tb[:: max(1, len(tb) // 300)], True))
    ctx.note("float16_exhaustive", True)
    ctx.pmap(_shard, tasks)
