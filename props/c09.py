"""C09 — code generation is deterministic and history independent.

Unit of observation: sha256 of Expr.tostring(target) for every (target, function, signature) unit, prepared as
results/update.py does.  Reference = one child process with PYTHONHASHSEED=0, sorted order.
(a) child processes with other hash seeds (and reversed order + in-process repetition);
(b) Hypothesis-generated request histories in one process: permutations, repetitions, interleaved targets and "noise"
    operations between requests; every emitted text must hash to the reference.
"""

import json
import os
import subprocess
import sys
import warnings

from harness import hyp, units
from harness.runner import Partial, VERIF

warnings.filterwarnings("ignore")
st = hyp.st


def child_hashes(hashseed, order):
    env = dict(os.environ)
    env["PYTHONHASHSEED"] = str(hashseed)
    repo = os.environ.get("VERIF_REPO", "/repo")
    env["PYTHONPATH"] = "%s:%s:%s/.deps" % (repo, VERIF, VERIF)
    r = subprocess.run([sys.executable, "-m", "harness.units", order], cwd=VERIF, env=env, capture_output=True, text=True, timeout=1200)
    for line in r.stdout.splitlines():
        if line.startswith("@@JSON@@"):
            return json.loads(line[8:])
    raise RuntimeError("child failed: rc=%s stderr=%s" % (r.returncode, r.stderr[-2000:]))


_REF = None


def reference():
    global _REF
    if _REF is None:
        _REF = child_hashes(0, "sorted")
    return _REF


NOISE = ("trace-other", "tmp-symbols", "numpy-context", "warn-once", "mpmath-cache", "rewrite-unrelated", "alt-context", "references")


def do_noise(kind, arg):
    import contextlib
    import io

    import numpy as np

    import functional_algorithms as fa
    from functional_algorithms import utils

    with warnings.catch_warnings():
        warnings.simplefilter("ignore")
        with contextlib.redirect_stdout(io.StringIO()):
            if kind == "trace-other":
                us = units.all_units(user=True)
                u = us[arg % len(us)]
                units.build_graph(u)  # throw-away context
            elif kind == "tmp-symbols":
                ctx = fa.Context(paths=[fa.algorithms], default_constant_type="float32")
                for _ in range(1 + arg % 5):
                    ctx.symbol(None, "float32")
                ctx.default_like
                x = ctx.symbol("x", "float64")
                (x + 1).ref
            elif kind == "numpy-context":
                from functional_algorithms import floating_point_algorithms as fpa, apmath

                c = utils.NumpyContext(np.float32)
                fpa.add_2sum(c, np.float32(1.5), np.float32(1e-8))
                apmath.two_prod(c, np.float32(1.5), np.float32(3.25))
            elif kind == "warn-once":
                utils.warn_once("C09 noise %d" % (arg % 3))
            elif kind == "mpmath-cache":
                m = utils.numpy_with_mpmath(extra_prec_multiplier=arg % 3)
                m.sqrt(np.float32(2))
            elif kind == "rewrite-unrelated":
                ctx = fa.Context(paths=[fa.algorithms])
                x, y = ctx.symbol("x", "float32"), ctx.symbol("y", "float32")
                e = ctx.select((x * x + abs(y)) > 0, ctx.sqrt(x * x), -y + 0 * x)
                e.rewrite(fa.targets.numpy, fa.rewrite)
            elif kind == "alt-context":
                ctx = fa.Context(paths=[fa.algorithms], enable_alt=True, default_constant_type="FloatType")
                x = ctx.symbol("x", "float32")
                (ctx.constant(2, x) * ctx.constant("largest", x) + x).rewrite(fa.rewrite)
            elif kind == "references":
                ctx = fa.Context(paths=[fa.algorithms])
                x = ctx.symbol("x", "float32")
                a = (x + 1).reference("add_2sum_high")
                b = (x + 2).reference("add_2sum_high")
                ctx.list([a, b, a * b]).tostring(fa.targets.numpy)


def run_history(hist):
    """hist: list of ("gen", unit index) | ("noise", kind, arg). Returns violations."""
    ref = reference()
    us = units.all_units(user=True)
    out = []
    for step in hist:
        if step[0] == "noise":
            try:
                do_noise(step[1], step[2])
            except Exception:
                pass  # noise operations are not under test
        else:
            u = us[step[1] % len(us)]
            key = "/".join(map(str, u))
            h = units.sha(units.generate(u))
            if h != ref[key]:
                out.append(("history-dependent/%s" % u[0], "text of %s differs from the fresh-process reference after %d earlier steps" % (key, hist.index(step))))
                break
    return out


def replay(case):
    if case.get("kind") == "hashseed":
        got = child_hashes(case["hashseed"], case["order"])
        ref = reference()
        bad = [k for k in ref if got.get(k) != ref[k]]
        return [("hashseed-dependent", "units differ under PYTHONHASHSEED=%s: %s" % (case["hashseed"], bad[:5]))] if bad else []
    return run_history([tuple(s) for s in case["history"]])


def history_strategy(nunits):
    step = st.one_of(
        st.tuples(st.just("gen"), st.integers(0, nunits - 1)),
        st.tuples(st.just("gen"), st.integers(0, nunits - 1)),
        st.tuples(st.just("noise"), st.sampled_from(NOISE), st.integers(0, 1000)),
    )

    @st.composite
    def hist(draw):
        h = draw(st.lists(step, min_size=4, max_size=30))
        # force repetitions of an earlier request
        gens = [s for s in h if s[0] == "gen"]
        if gens and draw(st.booleans()):
            h.append(draw(st.sampled_from(gens)))
            h.insert(draw(st.integers(0, len(h))), draw(st.sampled_from(gens)))
        return h

    return hist()


def _hist_shard(task):
    from harness.runner import Ctx

    seed, shard, n, known, ref = task
    global _REF
    _REF = ref
    sub = Ctx("C09", "quick", seed * 64 + shard, known)
    us = units.all_units(user=True)

    def body(h, part):
        gens = [s[1] % len(us) for s in h if s[0] == "gen"]
        part.count(len(gens), "requests")
        part.count(0)
        rep = len(gens) != len(set(gens))
        targets = {us[g][0] for g in gens}
        noise = any(s[0] == "noise" for s in h)
        part.label("histories")
        if rep:
            part.label("with-repetition")
        if noise:
            part.label("with-noise")
        if len(targets) >= 2:
            part.label("interleaved-targets")
        if rep and noise and len(targets) >= 2:
            part.nontrivial(repr(h))
        if len(part.samples) < 1:
            part.sample({"history": [list(s) if s[0] == "noise" else ["gen", "/".join(map(str, us[s[1] % len(us)]))] for s in h]})
        return run_history(h)

    hyp.drive(sub, history_strategy(len(us)), body, n, stream=shard, encode=lambda h: {"kind": "history", "history": [list(s) for s in h]})
    p = Partial()
    p.merge(sub)
    return p


def _seed_task(task):
    hs, order, ref = task
    p = Partial()
    got = child_hashes(hs, order)
    bad = sorted(k for k in ref if got.get(k) != ref[k])
    p.count(len(ref), "hashseed-%s/%s" % (hs, order))
    p.nontrivial(("hashseed", hs, order))
    if bad:
        cls = "repeat-differs" if any(str(got.get(k, "")).startswith("REPEAT") for k in bad) else "hashseed-dependent"
        p.violation(cls, "PYTHONHASHSEED=%s order=%s: %d units differ from the reference, e.g. %s" % (hs, order, len(bad), bad[:4]), {"kind": "hashseed", "hashseed": hs, "order": order})
    return p


def run(ctx):
    ref = reference()
    ctx.note("units", len(ref))
    ctx.note("units_not_implemented_by_target", sum(1 for v in ref.values() if v == "NOTIMPL"))
    ctx.rule = (
        "reference: sha256 of the generated text of every (target, function, signature) unit of cpp/numpy/python/stablehlo/xla_client in a "
        "fresh process with PYTHONHASHSEED=0; (a) child processes under other hash seeds, sorted and reversed order with in-process "
        "repetition of every third unit; (b) Hypothesis-generated in-process histories of up to 32 steps: generation requests (any unit, "
        "repetitions forced) interleaved with noise operations (tracing other units, unnamed symbols bumping the global counter, "
        "NumpyContext evaluation, warn_once, mpmath vfunc cache, rewriting unrelated graphs, alt contexts, colliding reference names). "
        "Non-trivial = history with a repeated unit, >=2 targets interleaved and >=1 noise operation; distinct by history / (hash seed, order)."
    )
    ctx.assumptions = ["only the generated text is compared (warnings/prints are once-per-process by design)", "same-Context repetition is not asserted (reference names are documented to be context-global)"]
    seeds = [1, 7, 12345] if ctx.quick else list(range(1, 25)) + [2**31 - 1, 987654321, 31337, 4242, 99991, 271828, 314159, 161803]
    seeds = [s + ctx.seed - 1 for s in seeds]
    tasks = [(hs, "reversed" if i % 2 else "sorted", ref) for i, hs in enumerate(seeds)]
    if not ctx.quick:
        tasks.append(("random", "reversed", ref))
    ctx.pmap(_seed_task, tasks)
    n = 25 if ctx.quick else 400
    ctx.pmap(_hist_shard, [(ctx.seed, s, n, ctx.known, ref) for s in range(16)])
