"""C14 — the ULP metric is the integer distance on the float lattice.

Subject: utils.diff_ulp (both flush modes, complex, lists) and utils.ulp.
Oracle: lattice index computed by harness/flt.py from the bit pattern (independent of utils).
"""

import warnings

import numpy as np

from harness import flt
from harness.runner import Partial

warnings.filterwarnings("ignore")


def _fa():
    from functional_algorithms import utils

    return utils


def collapsed_index(b, f, tie_to):
    """Model of the flushed lattice: subnormals collapse onto 0 / smallest normal (nearest), normals shift down."""
    i = flt.index(b, f)
    mag = abs(i)
    last_sub = f.smallest_normal_bits - 1
    if mag > last_sub:
        c = mag - last_sub
    else:
        # nearest of {0 (index 0), smallest normal (index last_sub+1)}
        if 2 * mag < last_sub + 1:
            c = 0
        elif 2 * mag > last_sub + 1:
            c = 1
        else:
            c = tie_to
    return -c if i < 0 else c


_TIE = {}


def tie_direction(f):
    """The property only demands a *consistent* collapse; the direction of the exact tie is read once from the code."""
    if f.bits not in _TIE:
        u = _fa()
        t = flt.bits_scalar((f.smallest_normal_bits) // 2, f)
        d = u.diff_ulp(t, f.ftype(0), flush_subnormals=True)
        _TIE[f.bits] = d
    return _TIE[f.bits]


def check_pair(fb, xb, yb, flush):
    """All diff_ulp claims for one ordered pair of finite bit patterns."""
    u = _fa()
    f = flt.FMT[fb]
    x, y = flt.bits_scalar(xb, f), flt.bits_scalar(yb, f)
    out = []
    d = u.diff_ulp(x, y, flush_subnormals=flush)
    d2 = u.diff_ulp(y, x, flush_subnormals=flush)
    if not flush:
        m = abs(flt.index(xb, f) - flt.index(yb, f))
    else:
        t = tie_direction(f)
        if t not in (0, 1):
            return [("diff_ulp/flush/tie-not-0-or-1", "diff_ulp(tie subnormal, 0, flush)=%r" % (t,))]
        m = abs(collapsed_index(xb, f, t) - collapsed_index(yb, f, t))
    sub = "sub" if (flt.is_subnormal_bits(xb, f) or flt.is_subnormal_bits(yb, f)) else "norm"
    mode = "flush" if flush else "noflush"
    if d != d2:
        out.append(("diff_ulp/%s/asymmetric/%s" % (mode, sub), "diff_ulp(%r,%r)=%r but reversed %r" % (x, y, d, d2)))
    if d != m:
        out.append(("diff_ulp/%s/not-lattice-distance/%s" % (mode, sub), "diff_ulp(%r,%r,flush=%s)=%r, lattice distance %r" % (x, y, flush, d, m)))
    if (d == 0) != (m == 0):
        out.append(("diff_ulp/%s/zero-iff-equal/%s" % (mode, sub), "diff_ulp(%r,%r)=%r" % (x, y, d)))
    return out


def check_triple(fb, ab, bb, cb, flush):
    """Additivity along a monotone chain a <= b <= c (by lattice index)."""
    u = _fa()
    f = flt.FMT[fb]
    a, b, c = (flt.bits_scalar(t, f) for t in (ab, bb, cb))
    dab = u.diff_ulp(a, b, flush_subnormals=flush)
    dbc = u.diff_ulp(b, c, flush_subnormals=flush)
    dac = u.diff_ulp(a, c, flush_subnormals=flush)
    if dab + dbc != dac:
        return [("diff_ulp/%s/not-additive" % ("flush" if flush else "noflush"), "d(%r,%r)+d(%r,%r)=%r+%r != d(a,c)=%r" % (a, b, b, c, dab, dbc, dac))]
    return []


def check_complex(fb, bits4, flush):
    u = _fa()
    f = flt.FMT[fb]
    a, b, c, d = (flt.bits_scalar(t, f) for t in bits4)
    z1 = f.ctype(complex(float(a), float(b)))
    z2 = f.ctype(complex(float(c), float(d)))
    got = u.diff_ulp(z1, z2, flush_subnormals=flush)
    want = max(u.diff_ulp(a, c, flush_subnormals=flush), u.diff_ulp(b, d, flush_subnormals=flush))
    model = None
    if not flush:
        model = max(abs(flt.index(bits4[0], f) - flt.index(bits4[2], f)), abs(flt.index(bits4[1], f) - flt.index(bits4[3], f)))
    if got != want or (model is not None and got != model):
        return [("diff_ulp/complex-not-max", "diff_ulp(%r,%r)=%r, components max=%r model=%r" % (z1, z2, got, want, model))]
    return []


def check_ulp(fb, xb):
    """utils.ulp docstring identities for one bit pattern (any, incl. inf/nan)."""
    u = _fa()
    f = flt.FMT[fb]
    x = flt.bits_scalar(xb, f)
    out = []
    with np.errstate(all="ignore"):
        r = u.ulp(x)
        if flt.is_nan_bits(xb, f):
            if not np.isnan(r):
                out.append(("ulp/nan", "ulp(nan)=%r" % (r,)))
            return out
        if type(r) is not f.ftype:
            out.append(("ulp/dtype", "ulp(%r) has type %s" % (x, type(r).__name__)))
            return out
        if flt.is_inf_bits(xb, f):
            if not (np.isinf(r) and r > 0):
                out.append(("ulp/inf", "ulp(%r)=%r" % (x, r)))
            return out
        kind = "zero" if x == 0 else ("subnormal" if flt.is_subnormal_bits(xb, f) else "normal")
        rn = u.ulp(-x)
        if flt.scalar_bits(rn) != flt.scalar_bits(r):
            out.append(("ulp/even/%s" % kind, "ulp(-x) != ulp(x) for x=%r: %r vs %r" % (x, rn, r)))
        if x >= 0:
            lhs = x + r
            rhs = np.nextafter(x, f.ftype(np.inf))
            if flt.scalar_bits(lhs) != flt.scalar_bits(rhs):
                out.append(("ulp/nextafter-up/%s" % kind, "x+ulp(x)=%r != nextafter(x,inf)=%r for x=%r (ulp=%r)" % (lhs, rhs, x, r)))
        if x < 0:
            lhs = x - r
            rhs = np.nextafter(x, f.ftype(-np.inf))
            if flt.scalar_bits(lhs) != flt.scalar_bits(rhs):
                out.append(("ulp/nextafter-down/%s" % kind, "x-ulp(x)=%r != nextafter(x,-inf)=%r for x=%r (ulp=%r)" % (lhs, rhs, x, r)))
        # "for finite x = m * 2**e, ulp(x) == 2**e": the spacing of the lattice at x
        if x != 0:
            want = flt.ulp_frac(flt.bits2frac(xb, f), f)
            got = flt.bits2frac(flt.scalar_bits(r), f) if np.isfinite(r) else None
            if got != want:
                out.append(("ulp/value/%s" % kind, "ulp(%r)=%r, lattice spacing is %s" % (x, r, float(want))))
    return out


def replay(case):
    k = case["kind"]
    if k == "pair":
        return check_pair(case["fmt"], case["x"], case["y"], case["flush"])
    if k == "triple":
        return check_triple(case["fmt"], case["a"], case["b"], case["c"], case["flush"])
    if k == "complex":
        return check_complex(case["fmt"], case["bits"], case["flush"])
    if k == "ulp":
        return check_ulp(case["fmt"], case["x"])
    if k == "list":
        return check_list(case["fmt"], case["xs"], case["ys"])
    raise ValueError(k)


def check_list(fb, xs, ys):
    u = _fa()
    f = flt.FMT[fb]
    X = [flt.bits_scalar(b, f) for b in xs]
    Y = [flt.bits_scalar(b, f) for b in ys]
    got = u.diff_ulp(list(X), list(Y))
    n = max(len(xs), len(ys))
    xs2 = list(xs) + [0] * (n - len(xs))
    ys2 = list(ys) + [0] * (n - len(ys))
    want = sum(abs(flt.index(a, f) - flt.index(b, f)) for a, b in zip(xs2, ys2))
    if got != want:
        return [("diff_ulp/list-sum", "diff_ulp(lists)=%r, sum of component lattice distances=%r" % (got, want))]
    return []


# ------------------------------------------------------------------ workers

KS = (1, 2, 3, 7, 100)


def _neighbour_shard(task):
    fb, lo, hi, seed = task
    f = flt.FMT[fb]
    p = Partial()
    idxs = np.arange(lo, hi)
    for i in idxs:
        i = int(i)
        xb = flt.from_index(i, f)
        for flush in (False, True):
            # identical arguments, and the two zeros
            for v in check_pair(fb, xb, xb, flush):
                p.violation(v[0], v[1], {"kind": "pair", "fmt": fb, "x": xb, "y": xb, "flush": flush})
            p.count(1, "f%d/self/%s" % (fb, flush))
        if i == 0:
            for flush in (False, True):
                for a, b in ((0, f.sign_mask), (f.sign_mask, 0), (f.sign_mask, f.sign_mask)):
                    for v in check_pair(fb, a, b, flush):
                        p.violation(v[0], v[1], {"kind": "pair", "fmt": fb, "x": a, "y": b, "flush": flush})
                    p.count(1, "f%d/zeros" % fb)
        for k in KS:
            j = i + k
            if j > f.largest_bits:
                continue
            yb = flt.from_index(j, f, negzero=(i < 0))
            for flush in (False, True):
                vs = check_pair(fb, xb, yb, flush)
                for v in vs:
                    p.violation(v[0], v[1], {"kind": "pair", "fmt": fb, "x": xb, "y": yb, "flush": flush})
                p.count(1, "f%d/neighbour-k%d/%s" % (fb, k, "flush" if flush else "noflush"))
            if (i < 0) != (j < 0) or (abs(i) >> f.mbits) != (abs(j) >> f.mbits):
                p.nontrivial((fb, i, k))  # crosses zero or a binade boundary
            if len(p.samples) < 2 and i % 977 == 0:
                p.sample({"fmt": fb, "x": flt.bits_scalar(xb, f), "y": flt.bits_scalar(yb, f), "k": k})
    return p


def _strat_bits(rng, f, n):
    """Pairs stratified by exponent gap and sign; returns two uint arrays of finite patterns."""
    xe = rng.integers(0, (1 << f.ebits) - 1, size=n)
    gap = rng.choice([0, 0, 1, 1, 2, 3, f.p, 2 * f.p, 1 << 20], size=n)
    ye = np.clip(xe + rng.choice([-1, 1], size=n) * gap, 0, (1 << f.ebits) - 2)
    far = rng.random(n) < 0.2
    ye = np.where(far, rng.integers(0, (1 << f.ebits) - 1, size=n), ye)
    mk = rng.integers(0, 5, size=(2, n))
    man = rng.integers(0, 1 << f.mbits, size=(2, n), dtype=np.uint64)
    man = np.where(mk == 0, 0, np.where(mk == 1, (1 << f.mbits) - 1, np.where(mk == 2, man & np.uint64(7), man)))
    sg = rng.integers(0, 2, size=(2, n)).astype(np.uint64)
    xb = (sg[0] << np.uint64(f.bits - 1)) | (xe.astype(np.uint64) << np.uint64(f.mbits)) | man[0].astype(np.uint64)
    yb = (sg[1] << np.uint64(f.bits - 1)) | (ye.astype(np.uint64) << np.uint64(f.mbits)) | man[1].astype(np.uint64)
    return xb, yb


def _pairs_shard(task):
    fb, n, seedtuple = task
    f = flt.FMT[fb]
    rng = np.random.Generator(np.random.PCG64(np.random.SeedSequence(list(seedtuple))))
    p = Partial()
    xb, yb = _strat_bits(rng, f, n)
    zb, _ = _strat_bits(rng, f, n)
    for t in range(n):
        a, b, c = int(xb[t]), int(yb[t]), int(zb[t])
        flush = bool(t & 1)
        for v in check_pair(fb, a, b, flush):
            p.violation(v[0], v[1], {"kind": "pair", "fmt": fb, "x": a, "y": b, "flush": flush})
        signs = "opp" if (a ^ b) & f.sign_mask else "same"
        p.count(1, "f%d/pair/%s/%s" % (fb, signs, "flush" if flush else "noflush"))
        if a != b:
            p.nontrivial((fb, a, b, flush))
        # chain
        tri = sorted((a, b, c), key=lambda q: flt.index(q, f))
        for v in check_triple(fb, tri[0], tri[1], tri[2], flush):
            p.violation(v[0], v[1], {"kind": "triple", "fmt": fb, "a": tri[0], "b": tri[1], "c": tri[2], "flush": flush})
        p.count(1, "f%d/triple" % fb)
        if fb > 16 and t % 4 == 0:
            d = int(zb[(t + 1) % n])
            sm = f.sign_mask
            # an unrelated pair, and structured pairs: conjugates, negatives, one component shared, a component shared up
            # to its sign, equal real and imaginary parts, neighbours across zero in one direction
            variants = [
                (a, b, c, d),
                (a, b, a, b ^ sm),
                (a, b, a ^ sm, b ^ sm),
                (a, b, a ^ sm, b),
                (a, b, c, b),
                (a, b, a, d),
                (a, b, c, b ^ sm),
                (a, a, c, c ^ sm),
                (a, b & (sm | 0x7), a, (b & 0x7) | ((b ^ sm) & sm)),
            ]
            for bits4 in variants[: 1 + (t // 4) % len(variants)] if t % 8 else variants:
                for v in check_complex(fb, bits4, flush):
                    p.violation(v[0], v[1], {"kind": "complex", "fmt": fb, "bits": list(bits4), "flush": flush})
                p.count(1, "f%d/complex" % fb)
        if t % 16 == 0:
            L1 = [int(q) for q in xb[t : t + int(rng.integers(1, 4))]]
            L2 = [int(q) for q in yb[t : t + int(rng.integers(1, 4))]]
            for v in check_list(fb, L1, L2):
                p.violation(v[0], v[1], {"kind": "list", "fmt": fb, "xs": L1, "ys": L2})
            p.count(1, "f%d/list" % fb)
        if t < 2:
            p.sample({"fmt": fb, "x": flt.bits_scalar(a, f), "y": flt.bits_scalar(b, f), "flush": flush, "model": abs(flt.index(a, f) - flt.index(b, f))})
    return p


def _ulp_shard(task):
    fb, bits = task
    f = flt.FMT[fb]
    p = Partial()
    for b in bits:
        b = int(b)
        for v in check_ulp(fb, b):
            p.violation(v[0], v[1], {"kind": "ulp", "fmt": fb, "x": b})
        kind = "nonfinite" if not flt.is_finite_bits(b, f) else ("subnormal" if flt.is_subnormal_bits(b, f) else "normal-or-zero")
        p.count(1, "f%d/ulp/%s" % (fb, kind))
        if flt.is_finite_bits(b, f) and (b & f.man_mask) in (0, f.man_mask):
            p.nontrivial(("ulp", fb, b))
    if len(bits):
        p.sample({"fmt": fb, "ulp_of": flt.bits_scalar(int(bits[len(bits) // 2]), f)})
    return p


def structured_bits(f, rng, nrand):
    """Every exponent (all binades incl. subnormal) x structured mantissas, both signs, + random + non-finite."""
    mans = [0, 1, 2, f.man_mask, f.man_mask - 1, f.man_mask >> 1, (f.man_mask >> 1) + 1, 0x5555555555555 & f.man_mask]
    out = []
    for e in range(0, (1 << f.ebits) - 1):
        for m in mans + [int(v) for v in rng.integers(0, 1 << f.mbits, size=4)]:
            out.append((e << f.mbits) | m)
    # subnormal binades: single-bit and all-ones-below patterns
    for k in range(f.mbits):
        out += [1 << k, (1 << k) - 1 if k else 0, (1 << k) + 1]
    out = np.array(out, dtype=np.uint64)
    rnd = flt.np_bits(flt.random_bits_floats(rng, nrand, f, finite=True)).astype(np.uint64) & np.uint64(~f.sign_mask & ((1 << f.bits) - 1))
    allb = np.unique(np.concatenate([out, rnd]))
    allb = np.concatenate([allb, allb | np.uint64(f.sign_mask)])
    nonfinite = np.array([f.inf_bits, f.inf_bits | f.sign_mask, f.inf_bits | 1, f.inf_bits | (1 << (f.mbits - 1))], dtype=np.uint64)
    return np.concatenate([allb, nonfinite])


def run(ctx):
    q = ctx.quick
    ctx.rule = (
        "float16: every finite value as start of k-th-neighbour checks (k in 1,2,3,7,100; both argument orders; both flush modes), "
        "self-distance and signed zeros; float16/32/64 pairs and sorted triples stratified by exponent gap/sign/mantissa shape "
        "(lattice-distance model, symmetry, additivity, complex=max, list=sum); ulp(): every finite float16, every binade x structured "
        "mantissas + random for float32/64. Non-trivial = neighbour step crossing zero or a binade boundary / pair of distinct values / "
        "ulp at a binade edge (mantissa all-zeros or all-ones); distinct by (format, bit patterns, option)."
    )
    ctx.assumptions = [
        "harness/flt.py lattice model (cross-validated against numpy in setup)",
        "direction of the exact flush tie (half the smallest normal) is read from the code once; only consistency is asserted",
        "numpy.nextafter is the reference for ulp()'s documented identities",
    ]
    # A. float16 exhaustive neighbours
    f = flt.F16
    lo, hi = -f.largest_bits, f.largest_bits + 1
    nsh = 32
    edges = np.linspace(lo, hi, nsh + 1).astype(int)
    ctx.pmap(_neighbour_shard, [(16, int(edges[i]), int(edges[i + 1]), ctx.seed) for i in range(nsh)])
    ctx.exhaustive = False  # the neighbour part is exhaustive for float16, the pair part is sampled
    ctx.note("float16_neighbour_starts_exhaustive", True)
    # B. sampled pairs
    n16, n32, n64 = (20000, 15000, 15000) if q else (400000, 400000, 400000)
    tasks = []
    for fb, n in ((16, n16), (32, n32), (64, n64)):
        per = n // 16
        tasks += [(fb, per, (ctx.seed, 14, fb, s)) for s in range(16)]
    ctx.pmap(_pairs_shard, tasks)
    # C. ulp
    tasks = []
    b16 = np.arange(1 << 16, dtype=np.uint64)
    for ch in np.array_split(b16, 16):
        tasks.append((16, ch))
    for fb in (32, 64):
        bits = structured_bits(flt.FMT[fb], ctx.rng(3, fb), 20000 if q else 1000000)
        for ch in np.array_split(bits, 16):
            tasks.append((fb, ch))
    ctx.pmap(_ulp_shard, tasks)
