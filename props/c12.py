"""C12 — floating-point expansion arithmetic preserves value and normal form.

Cases are Hypothesis-generated lists of floats (shrinkable): leading term, then each next term a generated number of
binades below the previous one (0 = same binade, 1..p-1 overlapping, >= p non-overlapping), zeros anywhere, exact
cancellation, optional shuffling (safe mode only).  Subjects: apmath.renormalize / add / subtract / multiply / square in the
eager (NumpyContext scalars) and functional (traced graph -> NumPy target, and NumpyContext) variants.
Oracle: exact rational sums; independent overlap predicate |y| < ulp(x) (harness/flt.py).
"""

import warnings
from fractions import Fraction

import numpy as np

from harness import flt, hyp
from harness.runner import Partial

warnings.filterwarnings("ignore")
np.seterr(all="ignore")
st = hyp.st

_TR = {}


def traced(op, fb, n1, n2, fast, size, fixo=False):
    key = (op, fb, n1, n2, fast, size, fixo)
    if key in _TR:
        return _TR[key]
    import functional_algorithms as fa
    from functional_algorithms import apmath

    dt = flt.FMT[fb].ftype
    n = n1 + n2
    names = ["x%d" % i for i in range(n)]
    ns = {"apmath": apmath, "dt": dt}
    if op == "renormalize":
        body = "return apmath.renormalize(ctx, [%s], functional=True, fast=%r, size=%r%s)" % (", ".join(names), fast, size, ", fix_overflow=True" if fixo else "")
    elif op in ("add", "subtract", "multiply"):
        body = "return apmath.%s(ctx, [%s], [%s], functional=True, fast=%r, size=%r)" % (op, ", ".join(names[:n1]), ", ".join(names[n1:]), fast, size)
    elif op == "square":
        body = "return apmath.square(ctx, [%s], functional=True, fast=%r, size=%r)" % (", ".join(names), fast, size)
    src = "def fn(ctx, %s):\n    %s\n" % (", ".join("%s: dt" % a for a in names), body)
    exec(src, ns)
    ctx = fa.Context(paths=[fa.algorithms])
    g = ctx.trace(ns["fn"], *([dt] * n))
    g = g.rewrite(fa.targets.numpy, fa.rewrite)
    f = fa.targets.numpy.as_function(g)
    _TR[key] = f
    return f


def call(op, variant, fb, seq1, seq2, fast, size, fixo=False):
    """Returns list of numpy scalars."""
    from functional_algorithms import apmath, utils

    f = flt.FMT[fb]
    a = [flt.bits_scalar(b, f) for b in seq1]
    b = [flt.bits_scalar(b_, f) for b_ in seq2]
    if variant == "traced":
        args = [np.array([v], dtype=f.ftype) for v in a + b]
        out = traced(op, fb, len(a), len(b), fast, size, fixo)(*args)
        out = out if isinstance(out, (list, tuple)) else [out]
        return [np.asarray(o, dtype=f.ftype).reshape(-1)[0] for o in out]
    ctx = utils.NumpyContext(f.ftype)
    functional = variant == "functional"
    if op == "renormalize":
        out = apmath.renormalize(ctx, list(a), functional=functional, fast=fast, size=size, **({"fix_overflow": True} if fixo else {}))
    elif op in ("add", "subtract", "multiply"):
        out = getattr(apmath, op)(ctx, list(a), list(b), functional=functional, fast=fast, size=size)
    else:
        out = apmath.square(ctx, list(a), functional=functional, fast=fast, size=size)
    return [f.ftype(o) for o in out]


def fsum(bits, f):
    return sum((flt.bits2frac(b, f) for b in bits), Fraction(0))


def vsum(vals):
    return sum((flt.float2frac(v) for v in vals), Fraction(0))


def overlapping(x, y, f):
    """independent predicate on exact values, both non-zero: the smaller magnitude reaches into the bits of the larger"""
    ax, ay = abs(x), abs(y)
    if ax < ay:
        ax, ay = ay, ax
    return ay >= flt.ulp_frac(ax, f)


def normal_form_problems(vals, f, functional, n_in):
    """ordered by decreasing magnitude, non-zero neighbours non-overlapping, zeros only at the tail (functional)."""
    q = [flt.float2frac(v) for v in vals]
    out = []
    nz = [v for v in q if v != 0]
    for a, b in zip(nz, nz[1:]):
        if abs(a) < abs(b):
            out.append("magnitudes not decreasing")
            break
    for a, b in zip(nz, nz[1:]):
        if overlapping(a, b, f):
            out.append("non-zero neighbours overlap (%s, %s)" % (float(a), float(b)))
            break
    if functional:
        seen_zero = False
        for v in q:
            if v == 0:
                seen_zero = True
            elif seen_zero:
                out.append("zero before a non-zero item")
                break
    return out


def decreasing(bits, f):
    mags = [abs(flt.index(b, f)) for b in bits if (b & ~f.sign_mask)]
    return all(a >= b for a, b in zip(mags, mags[1:]))


def fast_ok(bits, f):
    mags = [abs(flt.bits2frac(b, f)) for b in bits if (b & ~f.sign_mask)]
    return all(a >= 2 * b for a, b in zip(mags, mags[1:]))


def check(case):
    fb = case["fmt"]
    f = flt.FMT[fb]
    op, variant, fast, size = case["op"], case["variant"], case["fast"], case["size"]
    s1, s2 = case["seq1"], case.get("seq2", [])
    allb = list(s1) + list(s2)
    out = []
    L4 = f.largest / 8
    tag = "%s/%s/%s" % (op, variant, "fast" if fast else "safe")

    def show(bits):
        return [float(flt.bits_scalar(b, f)) for b in bits]

    if op in ("renormalize", "add", "subtract"):
        exact = fsum(s1, f) + (fsum(s2, f) if op != "subtract" else -fsum(s2, f))
        if sum((abs(flt.bits2frac(b, f)) for b in allb), Fraction(0)) > L4:
            return "out-of-domain", []
        try:
            r = call(op, variant, fb, s1, s2, fast, size, case.get("fixo", False))
        except Exception as e:
            return "in", [(tag + "/raises-" + type(e).__name__, "%s(%s, %s) raised %r" % (op, show(s1), show(s2), e))]
        if not all(np.isfinite(v) for v in r):
            return "in", [(tag + "/nonfinite", "%s(%s,%s) -> %s" % (op, show(s1), show(s2), r))]
        n_in = len(allb)
        functional = variant != "eager"
        # add/subtract pass the dtype on: "the length of the output will not exceed the maximal size of expansion
        # that a given floating-point system enables" (documented implicit size limit)
        max_size = {16: 4, 32: 12, 64: 40}[fb] if op in ("add", "subtract") else None
        if max_size is not None:
            size = max_size if size is None else min(size, max_size)
            n_in = min(n_in, size) if case["size"] is None else n_in
        if size is not None and len(r) > size:
            out.append((tag + "/size-exceeded", "%s(..., size=%d) returned %d items" % (op, size, len(r))))
        if functional and case["size"] is None and len(r) != n_in:
            out.append((tag + "/length", "functional %s returned %d items for %d inputs" % (op, len(r), n_in)))
        if not functional and len(r) > n_in:
            out.append((tag + "/length", "eager %s returned %d items for %d inputs" % (op, len(r), n_in)))
        total = vsum(r)
        truncating = False
        if size is not None:
            # does the size limit truncate?  decide from the unlimited result
            try:
                if op == "renormalize":
                    full = call(op, variant, fb, s1, [], fast, None, case.get("fixo", False))
                else:
                    # unlimited normal form of the concatenation (renormalize itself has no implicit limit)
                    cat = list(s1) + [(b ^ f.sign_mask) if op == "subtract" else b for b in s2]
                    # "truncates" is read relative to what the same single renormalisation pass produces without a limit
                    full = call("renormalize", "eager", fb, cat, [], False, None)
                truncating = sum(1 for v in full if v != 0) > size
            except Exception:
                truncating = True
        if not truncating and total != exact:
            out.append((tag + "/value-changed", "%s(%s%s, size=%s) = %s: exact sum changed by %.3g" % (op, show(s1), (", " + str(show(s2))) if s2 else "", size, [float(v) for v in r], float(total - exact))))
        # normal form: documented precondition = decreasing magnitudes (zeros excluded)
        if op == "renormalize" and decreasing(s1, f) and not truncating and not out:
            probs = normal_form_problems(r, f, functional, n_in)
            if probs:
                # second pass
                rb = [flt.scalar_bits(v) for v in r]
                try:
                    r2 = call(op, variant, fb, rb, [], fast, size, case.get("fixo", False))
                except Exception as e:
                    return "in", [(tag + "/raises-" + type(e).__name__, "second pass raised %r" % (e,))]
                probs2 = normal_form_problems(r2, f, functional, n_in)
                if vsum(r2) != exact:
                    out.append((tag + "/value-changed-2nd-pass", "second pass changed the sum for input %s" % show(s1)))
                elif probs2:
                    out.append((tag + "/not-normal-after-2-passes", "renormalize(%s) -> %s -> %s: %s" % (show(s1), [float(v) for v in r], [float(v) for v in r2], probs2[0])))
        return "in", out
    # multiply / square
    A, B = [flt.bits2frac(b, f) for b in s1], [flt.bits2frac(b, f) for b in (s2 if op == "multiply" else s1)]
    for a in A:
        for b in B:
            P = a * b
            if P != 0 and (abs(P) > f.largest / 64 or (P / f.smallest_subnormal).denominator != 1 or abs(P) < f.smallest_normal * 4):
                return "out-of-domain", []
    for v in A + (B if op == "multiply" else []):
        if v != 0 and (abs(v) > f.largest / Fraction(2) ** ((f.p + 1) // 2 + 2)):
            return "out-of-domain", []
    exact = sum(A, Fraction(0)) * sum(B, Fraction(0))
    try:
        r = call(op, variant, fb, s1, s2 if op == "multiply" else [], fast, size)
    except Exception as e:
        return "in", [(tag + "/raises-" + type(e).__name__, "%s raised %r" % (op, e))]
    if not r:
        return "in", ([] if exact == 0 else [(tag + "/empty", "%s(%s,%s) returned []" % (op, show(s1), show(s2)))])
    if not all(np.isfinite(v) for v in r):
        return "in", [(tag + "/nonfinite", "%s(%s,%s) -> %s" % (op, show(s1), show(s2), r))]
    total = vsum(r)
    lead = flt.float2frac(r[0])
    if lead == 0:
        ok = exact == 0 or abs(exact - total) < f.smallest_subnormal
    else:
        ok = abs(exact - total) < flt.ulp_frac(lead, f)
    if not ok:
        nzA = [v for v in A if v != 0]
        nzB = [v for v in B if v != 0]
        ovl = any(overlapping(x, y, f) for x, y in zip(nzA, nzA[1:])) or (op == "multiply" and any(overlapping(x, y, f) for x, y in zip(nzB, nzB[1:])))
        rel = abs(exact - total) / (flt.ulp_frac(lead, f) if lead != 0 else f.smallest_subnormal)
        def cancels(V):
            # two terms of opposite sign and comparable magnitude (within a factor of two)
            nz = [v for v in V if v != 0]
            return any(x * y < 0 and max(abs(x), abs(y)) <= 2 * min(abs(x), abs(y)) for i, x in enumerate(nz) for y in nz[i + 1 :])

        if size == 1 and ovl:
            cls = "product-error/size=1/overlapping-input"
        elif size is not None and ovl and (cancels(A) or (op == "multiply" and cancels(B))):
            # a size limit applied to the partial products of an input whose leading terms cancel (the value of the
            # expansion is much smaller than its first term)
            cls = "product-error/size-limited/cancelling-input"
        else:
            cls = tag + "/product-error" + ("/overlapping-input" if ovl else "")
        out.append((cls, "%s(%s, %s, size=%s) = %s differs from the exact product by %.3g >= ulp(leading term)" % (op, show(s1), show(s2), size, [float(v) for v in r], float(exact - total))))
    return "in", out


def replay(case):
    return check(case)[1]


# ----------------------------------------------------------------- strategies


@st.composite
def expansion(draw, f, max_len=6, proper=False, fast=False, moderate=False):
    n = draw(st.integers(1, max_len))
    if moderate:
        e = draw(st.integers(max(f.emin // 3, -40), min(f.emax // 3, 40)))
    else:
        e = draw(st.integers(f.emin, f.emax - 4))
    bits = []
    prev_m = None
    for i in range(n):
        kind = draw(st.sampled_from(["rand", "rand", "ones", "pow2", "low"]))
        m = {
            "rand": draw(st.integers(0, f.man_mask)),
            "ones": f.man_mask,
            "pow2": 0,
            "low": draw(st.integers(0, 7)),
        }[kind]
        if i > 0:
            if proper:
                g = draw(st.integers(f.p, f.p + 3))
            else:
                g = draw(st.sampled_from([0, 0, 1, 1, 2, 3, f.p // 2, f.p - 1, f.p, f.p + 1, f.p + 2, 2 * f.p]))
                if fast and g < 2:
                    g = 1 if g == 1 else 2
            e -= g
            if (g == 0 or (fast and g == 1)) and prev_m is not None and m > prev_m:
                m = prev_m if g == 0 else m & prev_m
                if fast and g == 1:
                    m = min(m, prev_m)
        prev_m = m
        s = draw(st.integers(0, 1)) << (f.bits - 1)
        if e >= f.emin:
            b = s | ((e + f.bias) << f.mbits) | m
        else:
            sh = f.emin - e
            mant = ((1 << f.mbits) | m) >> sh if sh <= f.mbits + 1 else 0
            b = s | mant  # subnormal or zero
        bits.append(b)
    # zeros anywhere, exact cancellation
    if not proper:
        for _ in range(draw(st.integers(0, 2))):
            pos = draw(st.integers(0, len(bits)))
            if len(bits) < max_len:
                bits.insert(pos, draw(st.sampled_from([0, f.sign_mask])))
        if len(bits) >= 2 and len(bits) < max_len and draw(st.integers(0, 5)) == 0 and not fast:
            i = draw(st.integers(0, len(bits) - 1))
            bits.insert(i + 1, bits[i] ^ f.sign_mask)
    return bits


@st.composite
def cases(draw):
    fb = draw(st.sampled_from([16, 32, 64]))
    f = flt.FMT[fb]
    op = draw(st.sampled_from(["renormalize", "renormalize", "renormalize", "add", "subtract", "multiply", "square"]))
    variant = draw(st.sampled_from(["eager", "functional", "traced"]))
    fast = draw(st.booleans()) if op == "renormalize" else False
    case = {"fmt": fb, "op": op, "variant": variant, "fast": fast}
    if op == "renormalize":
        s1 = draw(expansion(f, fast=fast))
        if not fast and draw(st.integers(0, 3)) == 0:
            s1 = draw(st.permutations(s1))
        case["seq1"], case["seq2"] = list(s1), []
        case["size"] = draw(st.sampled_from([None, None, None, 1, 2, 3, 4, 5, 6]))
        if fast and not fast_ok(case["seq1"], f):
            case["fast"] = False
        case["fixo"] = draw(st.booleans())  # renormalize(..., fix_overflow=True): same claims, no overflow is generated
    elif op in ("add", "subtract"):
        case["seq1"] = draw(expansion(f, max_len=3))
        case["seq2"] = draw(expansion(f, max_len=3))
        case["size"] = draw(st.sampled_from([None, None, 2, 3]))
    else:
        ml = 2 if fb == 16 else 3
        proper = draw(st.booleans())
        if not proper:
            ml = 4  # overlapping terms (still decreasing magnitudes): the size limit matters most here
        case["seq1"] = draw(expansion(f, max_len=ml, proper=proper, moderate=True))
        case["seq2"] = draw(expansion(f, max_len=ml if proper else 2, proper=proper, moderate=True)) if op == "multiply" else []
        case["size"] = draw(st.sampled_from([None, None, 2, 3, 1]))
    return case


def nontrivial(case):
    f = flt.FMT[case["fmt"]]
    b = case["seq1"] + case.get("seq2", [])
    q = [flt.bits2frac(x, f) for x in b]
    interior_zero = any(v == 0 for v in q[:-1]) and any(v != 0 for v in q)
    nz = [v for v in q if v != 0]
    ov = any(overlapping(x, y, f) for x, y in zip(nz, nz[1:]))
    return ov or interior_zero


def _shard(task):
    from harness.runner import Ctx

    seed, shard, n, known = task
    sub = Ctx("C12", "quick", seed * 64 + shard, known)

    def body(case, part):
        st_, bad = check(case)
        part.count(1, "%s/%s/%s/%s" % (case["op"], case["variant"], "fast" if case["fast"] else "safe", st_))
        if st_ == "in" and nontrivial(case):
            part.nontrivial(case)
        if case["op"] == "renormalize" and not decreasing(case["seq1"], flt.FMT[case["fmt"]]):
            part.label("renormalize/shuffled-input(value-only)")
        if len(part.samples) < 1:
            f = flt.FMT[case["fmt"]]
            part.sample({k: (v if k not in ("seq1", "seq2") else [float(flt.bits_scalar(b, f)) for b in v]) for k, v in case.items()})
        return bad

    hyp.drive(sub, cases(), body, n, stream=shard, max_classes=12)
    p = Partial()
    p.merge(sub)
    return p


def _overlap_crosscheck(task):
    """independent overlap predicate vs utils.overlapping on float16 pairs (strided grid)"""
    from functional_algorithms import utils

    lo, hi, stride = task
    f = flt.F16
    p = Partial()
    allb = flt.all_bits(f, finite=True).astype(np.uint64)
    ys = allb[::stride]
    for xb in allb[lo:hi]:
        xb = int(xb)
        x = flt.bits_scalar(xb, f)
        X = flt.bits2frac(xb, f)
        for yb in ys:
            yb = int(yb)
            Y = flt.bits2frac(yb, f)
            if X == 0 or Y == 0:
                continue
            y = flt.bits_scalar(yb, f)
            got = bool(utils.overlapping(x, y))
            want = True if X == Y else overlapping(X, Y, f)
            p.count(1, "overlap-crosscheck")
            if got != want:
                p.violation("overlapping-predicate", "utils.overlapping(%r, %r) = %s, lattice predicate says %s" % (x, y, got, want), {"kind": "overlap", "x": xb, "y": yb})
    return p


def run(ctx):
    ctx.rule = (
        "Hypothesis-generated expansions in float16/32/64: 1..6 terms, each next term 0, 1..p-1, p, p+1.. binades below the previous one "
        "(mantissa random/all-ones/power of two/low bits), zeros inserted anywhere, exact cancellation pairs, shuffled inputs (safe mode, "
        "value preservation only), subnormal tails; options {eager, functional via NumpyContext, functional via traced graph and NumPy "
        "target} x {fast (on its documented precondition |x_i| >= 2|x_i+1|), safe} x size in {None,1..6}; add/subtract of two expansions; "
        "multiply/square of proper expansions. Oracle: exact rational sums, independent overlap predicate (cross-checked against "
        "utils.overlapping on a float16 grid). Non-trivial = input with >=1 overlapping neighbour pair or an interior zero; distinct by case."
    )
    ctx.assumptions = [
        "normal form after <= 2 passes is asserted for inputs meeting renormalize's documented precondition (decreasing magnitudes, zeros excluded); shuffled inputs: exact value only",
        "no-overflow domain: sum of magnitudes <= largest/8; products: every partial product exact-representable error term and well inside the range",
    ]
    n = 900 if ctx.quick else 60000
    ctx.pmap(_shard, [(ctx.seed, s, n, ctx.known) for s in range(16)])
    nx = 63488
    stride = 97 if ctx.quick else 7
    step = 64 if ctx.quick else 8
    # strided rows of the float16 x float16 table
    from functional_algorithms import utils  # noqa: F401

    rows = list(range(0, nx, step * 61 if ctx.quick else step))
    tasks = [(r, r + 1, stride) for r in rows]
    ctx.pmap(_overlap_crosscheck, tasks, chunksize=8)
