"""C05 — executable targets (python, numpy, cpp) compute exactly the traced graph.

Programs: (a) every shipped algorithm x signature of the target, prepared as results/update.py does; (b) generated
program specs (harness/progs.py) restricted to what the target declares, with user reference names (incl. colliding ones).
Oracle: differential execution of the emitted source against an independent interpreter of the same graph using the same
primitive library (PyRef: Python math; NpRef: numpy scalars; CRef: IEEE ops + the libm the C++ links against), bit for
bit; plus source-level invariants (single assignment before use, one declaration per name, no two nodes sharing a ref).
"""

import itertools
import ast
import contextlib
import io
import math
import re
import struct
import sys
import warnings

import numpy as np

from harness import cppbuild, dag, flt, hyp, progs, units
from harness.runner import Partial

warnings.filterwarnings("ignore")
st = hyp.st

PY_KINDS = {"negative", "positive", "absolute", "sign", "sqrt", "add", "subtract", "multiply", "divide", "minimum", "maximum", "lt", "le", "gt", "ge", "eq", "ne", "logical_and", "logical_or", "logical_not", "logical_xor", "select", "square"}
CPP_KINDS = PY_KINDS


# ----------------------------------------------------------------- graph preparation


def make_graph(spec, target_name, refs=None, rewrite=True, call_from=None):
    import functional_algorithms as fa
    from functional_algorithms.expr import make_apply

    ctx, ex, root, syms = progs.build(spec, refs=refs, call_from=call_from)
    args = tuple(s.reference(ref_name=s.operands[0]) for s in syms)
    name = ctx.symbol("fn").reference(ref_name="fn")
    g = make_apply(ctx, name, args, root)
    target = getattr(fa.targets, target_name)
    with contextlib.redirect_stdout(io.StringIO()):
        g = g.rewrite(target)
        if rewrite:
            g = g.rewrite(fa.rewrite)
    return ctx, g


def all_nodes(e):
    seen, out = set(), []

    def walk(n):
        if not dag.is_expr(n) or id(n) in seen:
            return
        seen.add(id(n))
        for o in n.operands:
            walk(o)
        out.append(n)

    walk(e)
    return out


def is_const(e, memo):
    k = id(e)
    if k not in memo:
        if e.kind == "symbol":
            memo[k] = False
        elif e.kind == "constant":
            memo[k] = True
        else:
            memo[k] = all(is_const(o, memo) for o in e.operands if dag.is_expr(o))
    return memo[k]


# ----------------------------------------------------------------- source-level invariants

PY_GLOBALS = {"numpy", "math", "sys", "warnings", "make_complex", "finfo_float32", "finfo_float64", "max", "min", "abs", "complex", "print", "float", "int", "bool", "isinstance", "list", "len"}


def pysrc_problems(src, fname):
    """single assignment, assignment before use; parameters rebound only by the leading casts."""
    try:
        tree = ast.parse(src)
    except SyntaxError as e:
        return [("emitted-source-does-not-parse", "python source does not parse: %s" % e)]
    fn = [n for n in ast.walk(tree) if isinstance(n, ast.FunctionDef) and n.name == fname]
    if not fn:
        return [("function-missing", "no function %s in emitted source" % fname)]
    fn = fn[0]
    params = [a.arg for a in fn.args.args]
    assigned = {}
    out = []
    stmts = []

    def flat(body):
        for s in body:
            if isinstance(s, ast.With):
                flat(s.body)
            else:
                stmts.append(s)

    flat(fn.body)
    defined = set(params)
    cast_phase = True
    for s in stmts:
        tgt = None
        val = None
        if isinstance(s, ast.Assign) and len(s.targets) == 1 and isinstance(s.targets[0], ast.Name):
            tgt, val = s.targets[0].id, s.value
        elif isinstance(s, ast.AnnAssign) and isinstance(s.target, ast.Name):
            tgt, val = s.target.id, s.value
        elif isinstance(s, (ast.Return, ast.Assert, ast.Expr)):
            val = s.value if not isinstance(s, ast.Assert) else s.test
        if val is not None:
            for n in ast.walk(val):
                if isinstance(n, ast.Name) and isinstance(n.ctx, ast.Load):
                    if n.id not in defined and n.id not in PY_GLOBALS:
                        out.append(("use-before-assignment", "name %r is used before it is assigned" % n.id))
        if tgt is not None:
            is_cast = tgt in params and isinstance(val, ast.Call) and len(val.args) == 1 and isinstance(val.args[0], ast.Name) and val.args[0].id == tgt
            if tgt in params and not is_cast:
                out.append(("parameter-rebound", "parameter %r is reassigned" % tgt))
            elif tgt in assigned and tgt != "result":
                out.append(("assigned-twice", "variable %r is assigned twice" % tgt))
            if not is_cast:
                cast_phase = False
            assigned[tgt] = True
            defined.add(tgt)
    return out


_CPP_DECL = re.compile(r"^\s*((?:std::complex<\w+>|float|double|bool|int\d+_t))\s+(\w+)\s*=\s*(.*);\s*$")
_IDENT = re.compile(r"(?<![\w:.])([A-Za-z_]\w*)(?!\s*[(<:])")
CPP_WORDS = {"return", "float", "double", "bool", "true", "false", "std", "NAN", "M_PI", "int8_t", "int16_t", "int32_t", "int64_t", "f"}


def cppsrc_problems(src, params):
    out = []
    declared = set(params)
    lines = [ln for ln in src.splitlines()]
    # statements may span lines after clang-format: join until ';'
    stmts, cur = [], ""
    for ln in lines[1:]:
        cur += " " + ln.strip()
        if cur.rstrip().endswith(";") or cur.rstrip().endswith("}"):
            stmts.append(cur.strip())
            cur = ""
    for s_ in stmts:
        m = _CPP_DECL.match(s_)
        body = s_
        name = None
        if m:
            name, body = m.group(2), m.group(3)
        elif s_.startswith("return"):
            body = s_[len("return") :]
        else:
            continue
        toks = re.findall(r"[A-Za-z_]\w*|::|\d[\w.]*(?:[eE][+-]?\d+)?\w*|\S", body)
        for i, t in enumerate(toks):
            if not re.match(r"[A-Za-z_]\w*$", t):
                continue
            prev = toks[i - 1] if i else ""
            nxt = toks[i + 1] if i + 1 < len(toks) else ""
            if prev in ("::", ".") or nxt in ("::", "(", "<") or t in CPP_WORDS:
                continue
            if t not in declared:
                out.append(("use-before-declaration", "identifier %r is used before its declaration" % t))
        if name is not None:
            if name in declared:
                out.append(("declared-twice", "variable %r is declared twice" % name))
            declared.add(name)
    return out


def shared_ref_problems(g):
    by_ref = {}
    for n in all_nodes(g.operands[-1]):
        r = n.props.get("ref")
        if isinstance(r, str):
            by_ref.setdefault(r, []).append(n)
    out = []
    for r, ns in by_ref.items():
        if len({id(n) for n in ns}) > 1:
            out.append(("nodes-share-reference", "%d distinct sub-expressions share the variable name %r" % (len(ns), r)))
    return out


# ----------------------------------------------------------------- value comparison


def bits_of(v):
    if isinstance(v, (bool, np.bool_)):
        return ("b", bool(v))
    if isinstance(v, np.ndarray):
        v = v[()]
    if isinstance(v, (np.floating,)):
        if np.isnan(v):
            return ("nan", str(v.dtype))
        return (str(v.dtype), v.tobytes())
    if isinstance(v, np.complexfloating):
        ft = np.float32 if v.dtype == np.complex64 else np.float64
        return ("c",) + tuple(bits_of(ft(p)) for p in (v.real, v.imag))
    if isinstance(v, (int, np.integer)):
        try:
            return ("f", struct.pack("<d", float(v)))  # python target: ints compare by value with floats
        except OverflowError:
            return ("i", int(v))  # math.floor(1.7e308) * 2: a Python int beyond the float range
    if isinstance(v, float):
        return ("nan",) if math.isnan(v) else ("f", struct.pack("<d", v))
    if isinstance(v, complex):
        return ("c", bits_of(v.real), bits_of(v.imag))
    if isinstance(v, (list, tuple)):
        return ("L",) + tuple(bits_of(x) for x in v)
    return ("?", repr(v))


def same_bits(a, b, target):
    if target == "python":
        # Python numbers: a numpy.float64 (e.g. from a numpy-integer constant in the reference evaluation) is a float
        def py(v):
            if isinstance(v, np.floating):
                return float(v)
            if isinstance(v, np.integer):
                return int(v)
            if isinstance(v, np.bool_):
                return bool(v)
            return v

        return bits_of(py(a)) == bits_of(py(b))
    x, y = bits_of(a), bits_of(b)
    # numpy / cpp: dtype must agree as well, NaNs identified
    if x[0] == "nan" and y[0] == "nan":
        return True
    return x == y


# ----------------------------------------------------------------- inputs


def base_inputs(typename, rng, n):
    T = dag.NP_TYPES[typename]
    if issubclass(T, np.complexfloating):
        ft = np.float32 if T is np.complex64 else np.float64
        f = flt.F32 if ft is np.float32 else flt.F64
        parts = list(flt.special_values(f, neighbours=0)) + [ft(v) for v in (0.5, 1.5, -2.0, 0.3, 1e-3, 7.0)]
        out = []
        for _ in range(n):
            z = np.zeros(1, dtype=T)
            z.view(ft)[0] = parts[rng.integers(0, len(parts))]
            z.view(ft)[1] = parts[rng.integers(0, len(parts))]
            out.append(z[0])
        return out
    f = {np.float16: flt.F16, np.float32: flt.F32, np.float64: flt.F64}[T]
    sp = [T(v) for v in flt.special_values(f, neighbours=1)]
    mid = [T(v) for v in (0.5, 1.5, -2.0, 0.3, -0.7, 1e-3, 7.0, 0.1, 100.0)]
    rnd = [T(v) for v in flt.random_bits_floats(rng, max(4, n // 3), f)]
    pool = sp + mid + rnd + [T(np.nan), T(np.nan)]  # NaN is an input like any other ("for every input")
    idx = rng.integers(0, len(pool), size=n)
    return [pool[i] for i in idx]


def threshold_inputs(g, typename, ref_cls):
    """values of input-independent operands of comparisons (graph semantics) and their +-1 ULP neighbours"""
    T = dag.NP_TYPES[typename]
    if not issubclass(T, np.floating):
        return []
    memo = {}
    out = []
    for n in all_nodes(g.operands[-1]):
        if n.kind in ("lt", "le", "gt", "ge", "eq", "ne"):
            for o in n.operands:
                if dag.is_expr(o) and is_const(o, memo):
                    try:
                        v = ref_cls({}, record_flags=False).eval(o)
                        v = T(v)
                    except Exception:
                        continue
                    if np.isfinite(v):
                        out += [v, np.nextafter(v, T(np.inf)), np.nextafter(v, T(-np.inf))]
    return out[:12]


# ----------------------------------------------------------------- per target execution


def run_python(g, spec_syms, fname, inputs):
    import functional_algorithms as fa

    with contextlib.redirect_stdout(io.StringIO()):
        src = g.tostring(fa.targets.python)
    probs = pysrc_problems(src, fname)
    if any(c == "emitted-source-does-not-parse" for c, _ in probs):
        return src, probs, None
    ns = dict(sys=sys, math=math)
    exec(src, ns)
    return src, probs, ns.get(fname)


def py_value(v):
    if isinstance(v, np.complexfloating):
        return complex(v)
    if isinstance(v, np.floating):
        return float(v)
    return v


def run_numpy(g, fname, debug, fca=None):
    import functional_algorithms as fa

    with contextlib.redirect_stdout(io.StringIO()):
        src = g.tostring(fa.targets.numpy, debug=debug) if fca is None else g.tostring(fa.targets.numpy, debug=debug, force_cast_arguments=fca)
    probs = pysrc_problems(src, fname)
    if any(c == "emitted-source-does-not-parse" for c, _ in probs):
        return src, probs, None
    ns = dict(numpy=np, warnings=warnings, sys=sys, make_complex=fa.utils.make_complex, finfo_float32=np.finfo(np.float32), finfo_float64=np.finfo(np.float64))
    exec(src, ns)
    return src, probs, ns.get(fname)


def outcome(fn, args):
    try:
        with np.errstate(all="ignore"), contextlib.redirect_stdout(io.StringIO()):
            return ("value", fn(*args))
    except (ZeroDivisionError, OverflowError, ValueError, TypeError, AssertionError) as e:
        return ("raises", type(e).__name__)


def check_program(target, g, syms, fname, rng, debug=0, what="", fca=None):
    """syms: [(name, typename)].  Returns (violations, info)."""
    import functional_algorithms as fa

    info = {"inputs": 0, "skipped_nan_ambiguous": 0}
    out = []
    body = g.operands[-1]
    ref_cls = {"python": None, "numpy": dag.NpRef, "cpp": dag.CRef}[target]
    try:
        if target == "python":
            src, probs, fn = run_python(g, syms, fname, None)
        elif target == "numpy":
            src, probs, fn = run_numpy(g, fname, debug, fca)
        else:
            with contextlib.redirect_stdout(io.StringIO()):
                src = g.tostring(fa.targets.cpp)
            probs, fn = cppsrc_problems(src, [n for n, _ in syms]), None
    except NotImplementedError:
        return None, info  # the target rejects the graph
    except KeyError as e:
        return None, info  # a type/kind the target does not declare
    except SyntaxError as e:
        return [("emitted-source-does-not-parse", "%s: %s" % (what, e))], info
    except Exception as e:
        if type(e).__name__ == "InvalidInput":  # formatter could not parse the emitted source
            return [("emitted-source-does-not-parse", "%s: formatter rejected the emitted source: %s" % (what, str(e)[:120]))], info
        return [("tostring-raises/%s" % type(e).__name__, "%s: tostring(%s) raised %r" % (what, target, e))], info
    out += [(c, "%s: %s" % (what, w)) for c, w in probs]
    if target != "cpp" and fn is None and not any(c == "emitted-source-does-not-parse" for c, _ in probs):
        return out + [("function-missing", "%s: the emitted source does not define %s" % (what, fname))], info
    out += [(c, "%s: %s" % (what, w)) for c, w in shared_ref_problems(g)]
    if any(c == "emitted-source-does-not-parse" for c, _ in out):
        return out, info
    info["src"] = src
    return out, dict(info, fn=fn, src=src)


def compare_values(target, g, syms, fn_or_batch, fname, rng, n_inputs, what):
    out = []
    body = g.operands[-1]
    ref_cls = {"python": dag.PyRef, "numpy": dag.NpRef, "cpp": dag.CRef}[target]
    grids = []
    for name, t in syms:
        base = base_inputs(t, rng, n_inputs)
        thr = threshold_inputs(g, t, dag.CRef if target == "cpp" else dag.NpRef) if target != "python" else []
        grids.append(list(thr) + base)
    n = min(len(gr) for gr in grids)
    rows = [[gr[k] for gr in grids] for k in range(n)]
    # mix thresholds of different symbols: also rotate
    rows += [[gr[(k + i) % len(gr)] for i, gr in enumerate(grids)] for k in range(min(n, 12))]
    nodes = all_nodes(body)
    ambiguous_kinds = {"sign", "maximum", "minimum"}
    compared = 0
    if target == "cpp":
        arrays = [np.array([r[i] for r in rows]) for i in range(len(syms))]
        try:
            res = fn_or_batch.call(fname, arrays)
        except Exception as e:
            return [("cpp-call-failed", "%s: %r" % (what, e))], 0
    for k, args in enumerate(rows):
        env = {name: v for (name, _), v in zip(syms, args)}
        if target == "python":
            pargs = [py_value(a) for a in args]
            env = {name: v for (name, _), v in zip(syms, pargs)}
            r = dag.PyRef(env)
        else:
            r = ref_cls(env, record_flags=False)
        try:
            with np.errstate(all="ignore"):
                want = ("value", r.eval(body))
        except (ZeroDivisionError, OverflowError, ValueError, TypeError) as e:
            want = ("raises", type(e).__name__)
        except dag.Unsupported:
            return out, compared
        # NaN / signed-zero handling of sign/min/max is target specific: skip inputs where it matters
        skip = False
        for nd in nodes:
            if nd.kind in ambiguous_kinds and id(nd) in r.memo:
                for o in nd.operands:
                    v = r.memo.get(id(o))
                    try:
                        if v is not None and (v != v or v == 0):
                            skip = True
                    except Exception:
                        pass
        if skip:
            continue
        if target == "python":
            got = outcome(fn_or_batch, pargs)
        elif target == "numpy":
            got = outcome(fn_or_batch, args)
        else:
            got = ("value", res[k])
        compared += 1
        if target == "python" and got[0] == "raises" and want != got:
            # referenced sub-expressions are hoisted in front of the return statement, i.e. evaluated eagerly; an
            # exception raised by a branch that lazy evaluation would not take is the outcome of eager direct evaluation
            try:
                EagerPyRef(env).eval(body)
                eager = None
            except (ZeroDivisionError, OverflowError, ValueError, TypeError) as e:
                eager = ("raises", type(e).__name__)
            # which of several raising sub-expressions is met first depends on the hoisting order, so only the
            # fact that direct (eager) evaluation raises as well is compared, not the exception type
            if eager is not None:
                continue
        differs = want[0] != got[0] or (want[0] == "raises" and want[1] != got[1]) or (want[0] == "value" and not same_bits(want[1], got[1], target))
        if differs and target == "numpy" and want[0] == got[0] == "value":
            # numpy evaluates ** by scalar math or by the ufunc loop depending on whether an operand is a 0-d array
            # (the value of numpy.where); the two forms of the same primitive may differ in the last bit for float32
            pows = [nd for nd in nodes if nd.kind == "pow" and id(nd) in r.memo]
            subsets = itertools.chain.from_iterable(itertools.combinations(pows, m) for m in range(1, len(pows) + 1)) if len(pows) <= 4 else [pows]
            for sub in subsets:
                r2 = ref_cls(env, record_flags=False)
                r2.ufunc_pow = {id(nd) for nd in sub}
                try:
                    with np.errstate(all="ignore"):
                        if same_bits(r2.eval(body), got[1], target):
                            differs = False
                            break
                except Exception:
                    pass
        if differs:
            out.append(("%s/value-differs-from-graph" % target, "%s: inputs (%s): emitted code -> %r, direct evaluation of the graph -> %r" % (what, ", ".join(map(repr, args)), got[1], want[1])))
            break
    return out, compared


class EagerPyRef(dag.PyRef):
    """evaluates every operand of select / and / or (no short circuit)"""

    def _eval(self, e):
        if e.kind in ("select", "logical_and", "logical_or"):
            v = [self.eval(o) for o in e.operands]
            if e.kind == "select":
                return v[1] if v[0] else v[2]
            return (v[0] and v[1]) if e.kind == "logical_and" else (v[0] or v[1])
        return super()._eval(e)


# ----------------------------------------------------------------- shipped algorithms


def shipped_task(task):
    import functional_algorithms as fa

    target, us, seed = task
    p = Partial()
    rng = np.random.Generator(np.random.PCG64(np.random.SeedSequence([seed, 5, len(us)])))
    batch = cppbuild.Batch() if target == "cpp" else None
    pending = []
    for u in us:
        g = units.build_graph(u)
        if g is None:
            p.skip("target-rejects-unit")
            continue
        fname = g.props["name"]
        tgt = getattr(fa.targets, target)
        atypes = tgt.trace_arguments[u[1]][u[2]]
        args = g.operands[1:-1]
        syms = [(a.operands[0], str(a.operands[1])) for a in args]
        what = "/".join(map(str, u))
        for debug in ((0, 1) if target == "numpy" else (0,)):
            bad, info = check_program(target, g, syms, fname, rng, debug=debug, what=what)
            if bad is None:
                p.skip("target-rejects-unit")
                break
            for c, w in bad:
                p.violation("shipped/" + c, w, {"unit": list(u), "debug": debug})
            if any(c == "emitted-source-does-not-parse" for c, _ in bad):
                break
            if target == "cpp":
                batch.add(fname, info["src"], [t for _, t in syms], str(g.operands[-1].get_type()))
                pending.append((u, g, syms, fname, what))
            else:
                bad2, ncmp = compare_values(target, g, syms, info["fn"], fname, rng, 60, what)
                for c, w in bad2:
                    p.violation("shipped/" + c, w, {"unit": list(u), "debug": debug})
                p.count(ncmp, "shipped/%s/%s" % (target, u[1]))
                if ncmp:
                    p.nontrivial(("shipped", target, u[1], u[2], debug))
    if batch is not None and batch.items:
        batch.compile()
        for u, g, syms, fname, what in pending:
            if fname in batch.errors:
                p.violation("shipped/cpp/does-not-compile", "%s: g++ rejects the emitted source: %s" % (what, batch.errors[fname].strip().splitlines()[0][:200] if batch.errors[fname].strip() else "?"), {"unit": list(u)})
                continue
            bad2, ncmp = compare_values("cpp", g, syms, batch, fname, rng, 60, what)
            for c, w in bad2:
                p.violation("shipped/" + c, w, {"unit": list(u)})
            p.count(ncmp, "shipped/cpp/%s" % u[1])
            if ncmp:
                p.nontrivial(("shipped", "cpp", u[1], u[2]))
        batch.close()
    if len(p.samples) < 1 and us:
        p.sample({"unit": list(us[0])})
    return p


# ----------------------------------------------------------------- generated programs


EXTRA_UNARY = ["floor", "ceil", "truncate", "exp", "expm1", "exp2", "log", "log1p", "log2", "log10", "sin", "cos", "tan", "sinh", "cosh", "tanh", "asin", "acos", "atan", "asinh", "acosh", "atanh", "round"]
EXTRA_BINARY = ["remainder", "floor_divide", "pow", "atan2", "copysign", "hypot"]  # nextafter is declared by the numpy target but no Context method builds it
EXTRA_PRED = ["is_finite"]


def declared(target, kinds):
    """kinds for which the target declares a template (what it claims to accept; semantics are not read from it)"""
    import functional_algorithms as fa

    table = getattr(fa.targets, target).kind_to_target
    return [k for k in kinds if table.get(k, NotImplemented) is not NotImplemented]


def gen_cases(target):
    sorts = {"python": ("f",), "numpy": ("f32", "f64", "f16"), "cpp": ("f32", "f64")}[target]
    eu, eb = declared(target, EXTRA_UNARY), declared(target, EXTRA_BINARY)
    return st.builds(
        lambda spec, vseed, refs, rw, debug, cf, fca: {"target": target, "spec": progs.prune(spec), "vseed": vseed, "refs": refs, "rewrite": rw, "debug": debug, "call_from": cf, "fca": fca},
        progs.programs(
            main_sorts=sorts,
            max_nodes=16,
            allow_cast=(target == "numpy"),
            allow_list=False,
            allow_named=True,
            named=("largest", "smallest", "posinf", "neginf") if target != "numpy" else progs.NAMED,
            allow_xor=True,
            mixed=(target == "numpy"),
            np_consts=(target == "numpy"),
            extra_unary=eu,
            extra_binary=eb,
            extra_pred=declared(target, EXTRA_PRED),
            np_int_consts=True,
        ),
        st.integers(0, 2**31 - 1),
        st.dictionaries(st.integers(0, 20).map(str), st.sampled_from(["a", "b", "a", "t", "a", "fn", "result", "abs_x", "a"]), max_size=5),
        st.booleans(),
        st.integers(0, 1),  # numpy: debug level (the property quantifies over 0/1)
        st.one_of(st.none(), st.integers(1, 6)),
        st.sampled_from([None, None, True]),  # numpy: force_cast_arguments left at its default or given explicitly
    )


def prepare_case(case):
    """returns (g, syms, violations|None)"""
    spec = case["spec"]
    import signal

    class _Expired(Exception):
        pass

    def _on_alarm(signum, frame):
        raise _Expired()

    old_handler = signal.signal(signal.SIGALRM, _on_alarm)
    signal.alarm(60)  # safety net only: a non-terminating expansion/rewrite is C04's subject; here the case is skipped
    try:
        ctx, g = make_graph(spec, case["target"], refs=case["refs"], rewrite=case["rewrite"], call_from=case.get("call_from"))
    except _Expired:
        return None, None, None
    except NotImplementedError:
        return None, None, None
    except Exception as e:
        return None, None, [("prepare-raises/%s" % type(e).__name__, "expansion/rewrite for %s raised %r" % (case["target"], e))]
    finally:
        signal.alarm(0)
        signal.signal(signal.SIGALRM, old_handler)
    syms = [(n, t) for n, t in spec["syms"]]
    # keep the symbols the function actually takes (all of them: make_apply uses every symbol)
    return g, syms, []


def check_case(case, batch=None):
    target = case["target"]
    g, syms, bad = prepare_case(case)
    if g is None:
        return bad or [], {"rejected": bad is None}
    rng = np.random.Generator(np.random.PCG64(case.get("vseed", 0)))
    bad, info = check_program(target, g, syms, "fn", rng, debug=case.get("debug", 0) if target == "numpy" else 0, what="generated", fca=case.get("fca") if target == "numpy" else None)
    if bad is None:
        return [], {"rejected": True}
    out = list(bad)
    if any(c in ("emitted-source-does-not-parse", "function-missing") or c.startswith("tostring-raises") for c, _ in bad):
        return out, {"rejected": False}
    if target == "cpp":
        b = cppbuild.Batch()
        b.add("fn", info["src"], [t for _, t in syms], str(g.operands[-1].get_type()))
        b.compile()
        try:
            if "fn" in b.errors:
                msg = [ln for ln in b.errors["fn"].splitlines() if "error" in ln]
                out.append(("cpp/does-not-compile/%s" % g.operands[-1].kind, "generated: g++ rejects the emitted source: %s" % (msg[0][-220:] if msg else "?")))
                return out, {"rejected": False}
            bad2, ncmp = compare_values("cpp", g, syms, b, "fn", rng, 24, "generated")
        finally:
            b.close()
    else:
        bad2, ncmp = compare_values(target, g, syms, info["fn"], "fn", rng, 24, "generated")
    out += bad2
    return out, {"rejected": False, "compared": ncmp}


def _const_specs(syms, base, bi):
    """constants in every operand position, given as Python ints, Python floats and numpy integer scalars (an integer
    literal emitted for a floating constant changes 1/3, -0 and the overload chosen for max/min)"""
    out = []
    vals = [(["int", 1], ["int", 3]), (["np.int64", 1], ["np.int64", 3]), (["np.int32", 7], ["int", 2]), (["float", "0x1p+0"], ["np.int64", 3])]
    for k in bi:
        for va, vb in vals:
            out.append((k, {"syms": syms, "nodes": base + [["const", va, 0], ["const", vb, 0], [k, 3, 4], ["multiply", 5, 0]], "root": 6}))
            out.append((k, {"syms": syms, "nodes": base + [["const", vb, 0], [k, 0, 3], ["add", 4, 1]], "root": 5}))
            out.append((k, {"syms": syms, "nodes": base + [["const", vb, 0], [k, 3, 0], ["add", 4, 1]], "root": 5}))
    for vz in (["int", 0], ["np.int64", 0], ["float", "0x0p+0"]):
        out.append(("negative", {"syms": syms, "nodes": base + [["const", vz, 0], ["negative", 3], ["divide", 0, 4]], "root": 5}))
    return out


def cpp_template_probe(task):
    """Every unary/binary kind the C++ target declares, in float32 and float64, inlined into further inexact arithmetic
    (k(..)*y + z and k(x*y + z ..)): an operand or result silently promoted to double (unqualified C function, untyped
    literal) changes the float32 result by double rounding only when two more roundings follow in the same expression.
    All functions go through one g++ run."""
    seed = task
    p = Partial()
    rng = np.random.Generator(np.random.PCG64([seed, 55]))
    un = progs.UNARY_REAL + declared("cpp", EXTRA_UNARY)
    bi = progs.BINARY_REAL + declared("cpp", EXTRA_BINARY)
    cases = []
    for T in ("float32", "float64"):
        syms = [["x", T], ["y", T], ["z", T]]
        base = [["sym", 0], ["sym", 1], ["sym", 2]]
        for k in un:
            cases.append((k, T, {"syms": syms, "nodes": base + [[k, 0], ["multiply", 3, 1], ["add", 4, 2]], "root": 5}))
            cases.append((k, T, {"syms": syms, "nodes": base + [["multiply", 0, 1], ["add", 3, 2], [k, 4], ["multiply", 5, 1], ["subtract", 6, 2]], "root": 7}))
        for k, spec in _const_specs(syms, base, bi):
            cases.append((k, T, spec))
        for k in declared("cpp", EXTRA_PRED):
            cases.append((k, T, {"syms": syms, "nodes": base + [[k, 0], ["select", 3, 1, 2]], "root": 4}))
            cases.append((k, T, {"syms": syms, "nodes": base + [["divide", 0, 1], [k, 3], ["logical_not", 4], ["select", 5, 1, 2]], "root": 6}))
        for k in bi:
            cases.append((k, T, {"syms": syms, "nodes": base + [[k, 0, 1], ["multiply", 3, 2], ["add", 4, 0]], "root": 5}))
            cases.append((k, T, {"syms": syms, "nodes": base + [["multiply", 0, 1], ["add", 3, 2], [k, 4, 1], ["multiply", 5, 2], ["add", 6, 0]], "root": 7}))
    # remainder does not compile for floating operands (open finding F-C05-5): kept out of the common translation unit
    p.merge(_probe_batch([c for c in cases if c[0] != "remainder"], seed, rng, 0))
    p.merge(_probe_batch([c for c in cases if c[0] == "remainder"], seed, rng, 10000))
    return p


def py_template_probe(task):
    """the same shapes for the python and numpy targets (no compilation involved)"""
    seed, target = task
    p = Partial()
    rng = np.random.Generator(np.random.PCG64([seed, 56]))
    un = progs.UNARY_REAL + declared(target, EXTRA_UNARY)
    bi = progs.BINARY_REAL + declared(target, EXTRA_BINARY)
    for T in {"python": ("float",), "numpy": ("float16", "float32", "float64")}[target]:
        syms = [["x", T], ["y", T], ["z", T]]
        base = [["sym", 0], ["sym", 1], ["sym", 2]]
        specs = []
        for k in un:
            specs.append((k, {"syms": syms, "nodes": base + [[k, 0], ["multiply", 3, 1], ["add", 4, 2]], "root": 5}))
            specs.append((k, {"syms": syms, "nodes": base + [["multiply", 0, 1], ["add", 3, 2], [k, 4], ["multiply", 5, 1], ["subtract", 6, 2]], "root": 7}))
        specs += _const_specs(syms, base, bi)
        for k in declared(target, EXTRA_PRED):
            specs.append((k, {"syms": syms, "nodes": base + [[k, 0], ["select", 3, 1, 2]], "root": 4}))
            specs.append((k, {"syms": syms, "nodes": base + [["divide", 0, 1], [k, 3], ["logical_not", 4], ["select", 5, 1, 2]], "root": 6}))
        for k in bi:
            specs.append((k, {"syms": syms, "nodes": base + [[k, 0, 1], ["multiply", 3, 2], ["add", 4, 0]], "root": 5}))
            specs.append((k, {"syms": syms, "nodes": base + [["multiply", 0, 1], ["add", 3, 2], [k, 4, 1], ["multiply", 5, 2], ["add", 6, 0]], "root": 7}))
        if target == "numpy":
            # operands of different widths, both orders (the result takes the wider type whichever operand is selected)
            for T2 in ("float16", "float32", "float64"):
                if T2 == T:
                    continue
                msyms = [["x", T], ["y", T2], ["z", T]]
                for k in bi:
                    # the node itself as result (its dtype shows), and under a consumer whose rounding depends on the
                    # dtype it receives (a product with a wider value would convert exactly and hide a missing cast)
                    for a, b in ((0, 1), (1, 0)):
                        specs.append((k, {"syms": msyms, "nodes": base + [[k, a, b]], "root": 3}))
                        specs.append((k, {"syms": msyms, "nodes": base + [[k, a, b], ["absolute", 3], ["sqrt", 4], ["add", 5, 2]], "root": 6}))
                        specs.append((k, {"syms": msyms, "nodes": base + [[k, a, b], ["const", ["int", 3], 3], ["divide", 3, 4], ["add", 5, 2]], "root": 6}))
                specs.append(("select", {"syms": msyms, "nodes": base + [["lt", 0, 2], ["select", 3, 0, 1], ["multiply", 4, 4]], "root": 5}))
                specs.append(("select", {"syms": msyms, "nodes": base + [["lt", 0, 2], ["select", 3, 1, 0], ["multiply", 4, 4]], "root": 5}))
        for k, spec in specs:
            for debug in ((0, 1) if target == "numpy" else (0,)):
                case = {"target": target, "spec": spec, "vseed": seed, "refs": {}, "rewrite": False, "debug": debug, "call_from": None}
                bad, info = check_case(case)
                if info.get("rejected"):
                    p.count(1, "template-probe/%s/rejected-by-target" % target)
                    continue
                p.count(1, "template-probe/%s/%s" % (target, T))
                p.label("template-probe/%s/inputs-compared" % target, info.get("compared", 0))
                if info.get("compared"):
                    p.nontrivial(("probe", target, k, T, debug, spec["root"]))
                for cls, what in bad:
                    p.violation(cls + ("/" + k if "value-differs" in cls else ""), what, case)
    return p


def _probe_batch(cases, seed, rng, offset):
    p = Partial()
    b = cppbuild.Batch()
    built = []
    for i, (k, T, spec) in enumerate(cases, offset):
        case = {"target": "cpp", "spec": spec, "vseed": seed, "refs": {}, "rewrite": False, "debug": 0, "call_from": None}
        g, syms, bad = prepare_case(case)
        if g is None:
            p.count(1, "template-probe/cpp/rejected-by-target")
            continue
        bad, info = check_program("cpp", g, syms, "fn", rng, what="template probe")
        if bad is None:
            p.count(1, "template-probe/cpp/rejected-by-target")
            continue
        for cls, what in bad:
            p.violation(cls, what, case)
        if bad:
            continue
        name = "fn%d" % i
        b.add(name, info["src"].replace(" fn(", " %s(" % name, 1), [t for _, t in syms], str(g.operands[-1].get_type()))
        built.append((name, k, T, case, g, syms))
    b.compile()
    try:
        for name, k, T, case, g, syms in built:
            if name in b.errors:
                msg = [ln for ln in b.errors[name].splitlines() if "error" in ln]
                p.violation("cpp/does-not-compile/%s" % k, "template probe: g++ rejects the emitted source: %s" % (msg[0][-220:] if msg else "?"), case)
                continue
            bad2, ncmp = compare_values("cpp", g, syms, b, name, rng, 64, "template probe %s/%s" % (k, T))
            p.count(1, "template-probe/cpp/%s" % T)
            p.label("template-probe/cpp/inputs-compared", ncmp)
            if ncmp:
                p.nontrivial(("probe", k, T, case["spec"]["root"]))
            for cls, what in bad2:
                p.violation(cls + "/" + k, what, case)
    finally:
        b.close()
    return p


def reduce_cpp_case(case, cls):
    """smallest sub-program (re-rooted at an earlier node, then pruned) that still shows the same violation class"""
    spec = case["spec"]
    best = case
    for root in range(len(spec["nodes"])):
        if spec["nodes"][root][0] == "sym":
            continue
        cand = dict(case, spec=progs.prune(dict(spec, root=root)), refs={})
        try:
            bad, _ = check_case(cand)
        except Exception:
            continue
        if any(c.split("/")[:2] == cls.split("/")[:2] for c, _ in bad):
            if len(cand["spec"]["nodes"]) < len(best["spec"]["nodes"]):
                best = cand
    return best


def replay(case):
    if "unit" in case:
        u = tuple(case["unit"])
        p = shipped_task((u[0], [u], 1))
        return [(v["cls"], v["what"]) for v in p.violations]
    return check_case(case)[0]


def _gen_shard(task):
    from harness.runner import Ctx

    seed, shard, n, known, target = task
    sub = Ctx("C05", "quick", seed * 64 + shard, known)

    def body(case, part):
        bad, info = check_case(case)
        if info.get("rejected"):
            part.count(1, "generated/%s/rejected-by-target" % target)
            return bad
        part.count(1, "generated/%s" % target)
        part.label("generated/%s/inputs-compared" % target, info.get("compared", 0))
        f = progs.features(case["spec"])
        if "shared-subexpression" in f and info.get("compared"):
            part.nontrivial(case)
        if case["refs"]:
            part.label("with-user-reference-names")
        if len(part.samples) < 1:
            part.sample({"target": target, "spec": case["spec"], "refs": case["refs"]})
        return bad

    # every evaluation of a C++ case costs a g++ run: Hypothesis' shrinker is replaced by the cheap reduction below
    hyp.drive(sub, gen_cases(target), body, n, stream=shard, max_classes=10, shrink=(target != "cpp"))
    if target == "cpp":
        for v in sub.violations:
            v["case"] = reduce_cpp_case(v["case"], v["cls"])
            if v["cls"].startswith("cpp/does-not-compile"):
                # class = root kind of the *reduced* program
                rb, _ = check_case(v["case"])
                for c, w in rb:
                    if c.startswith("cpp/does-not-compile"):
                        v["cls"], v["what"] = c, w
    p = Partial()
    p.merge(sub)
    return p


def run(ctx):
    ctx.rule = (
        "(a) every shipped (target, function, signature) unit of python (25), numpy (50, debug 0 and 1) and cpp (56): emitted source is "
        "parsed/loaded (exec / g++ -O1 -ffp-contract=off), source-level invariants checked, and run on >=60 inputs per unit (special "
        "lattice, random bits, and the graph-semantics value +-1 ULP of every input-independent comparison operand) against PyRef / NpRef "
        "/ CRef; (b) Hypothesis-generated programs per target over the kinds, named constants and dtypes the target declares, with user "
        "reference names including colliding ones, debug 0/1. Non-trivial = program with a shared sub-expression whose result was "
        "compared on at least one input / any shipped unit compared / any template probe compared; distinct by case. (c) per-template probes: "
        "every unary/binary kind a target declares x every dtype inlined into k(..)*y+z and k(x*y+z)*y-z (C++: one g++ run for all). (d) a "
        "coverage-guided campaign (atheris/libFuzzer over the byte string Hypothesis decodes into a case of the python / numpy strategies, "
        "same oracle), counted under fuzz/*."
    )
    ctx.assumptions = [
        "C++ reference = numpy IEEE +,-,*,/,sqrt and ctypes calls into the libm the emitted code links against (instead of a separately compiled DAG interpreter); g++ -O1 -ffp-contract=off -frounding-math (no compile-time folding of inexact libm calls)",
        "NaN and signed-zero operands of sign/min/max are not compared (their treatment is target specific)",
        "tostring raising NotImplementedError or a missing-type KeyError means the target rejects the graph",
    ]
    tasks = []
    for target in ("python", "numpy", "cpp"):
        us = units.all_units((target,))
        k = 4 if target != "cpp" else 6
        for i in range(k):
            tasks.append((target, us[i::k], ctx.seed))
    ctx.pmap(shipped_task, tasks)
    n = 120 if ctx.quick else 1500
    gtasks = []
    for target, nsh, mult in (("python", 5, 1), ("numpy", 6, 1), ("cpp", 5, 1)):
        for s in range(nsh):
            gtasks.append((ctx.seed, s, int(n * mult) if target != "cpp" else max(8, n // 3), ctx.known, target))
    ctx.pmap(_gen_shard, gtasks)
    ctx.merge(cpp_template_probe(ctx.seed))
    ctx.pmap(py_template_probe, [(ctx.seed, "python"), (ctx.seed, "numpy")])
    from harness import fuzz

    fuzz.campaign(ctx, "C05", ["python", "numpy"], runs=500 if ctx.quick else 15000, workers=8 if ctx.quick else 16)


# ---- coverage-guided tier (harness/fuzz.py): python and numpy targets (a g++ run per case is too slow for libFuzzer)
def fuzz_strategy(variant):
    return gen_cases(variant)
