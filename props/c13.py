"""C13 — number-representation conversions are lossless and mutually inverse.

Oracle: exact value of the bit pattern by harness/flt.py; independent parser of the binary string;
the mpf tuple is decoded by hand ((-1)^s * man * 2^exp).
"""

import re
import warnings
from fractions import Fraction

import numpy as np

from harness import flt, hyp
from harness.runner import Partial

warnings.filterwarnings("ignore")

_BIN = re.compile(r"(-?)1(?:\.([01]+))?p([+-]?\d+)\Z")


def parse_bin(s):
    """Independent parser of the significand/exponent string -> Fraction | 'inf' | '-inf' | 'nan' | ('zero', neg)."""
    if s in ("inf", "-inf", "nan"):
        return s
    if s in ("0", "-0"):
        return ("zero", s.startswith("-"))
    m = _BIN.match(s)
    if not m:
        return None
    sign, frac, e = m.groups()
    q = Fraction(1)
    if frac:
        q += Fraction(int(frac, 2), 1 << len(frac))
    q *= Fraction(2) ** int(e)
    return -q if sign else q


def mpf_value(t):
    s, man, exp, bc = t
    return (-1 if s else 1) * Fraction(int(man)) * Fraction(2) ** int(exp)


def _ctxs():
    import mpmath

    out = []
    for prec in (11, 24, 53, 200):
        c = mpmath.mp.clone()
        c.prec = prec
        out.append(c)
    return out


_CTX = None


def ctxs():
    global _CTX
    if _CTX is None:
        _CTX = _ctxs()
    return _CTX


def zclass(xb, f):
    if xb == f.sign_mask:
        return "negzero"
    if xb == 0:
        return "poszero"
    if flt.is_subnormal_bits(xb, f):
        return "subnormal"
    return "normal"



def _approx(q):
    """float(q) for messages; an exact rational beyond the double range is shown as infinity"""
    try:
        return float(q)
    except OverflowError:
        return float("inf")


def fsum(words):
    """exact sum of the words; None (equal to no value) when a word is not finite"""
    if any(not np.isfinite(w) for w in words):
        return None
    return sum((flt.float2frac(w) for w in words), Fraction(0))

def check_float(fb, xb):
    """All single-float conversion claims for one bit pattern (finite, inf or nan)."""
    from functional_algorithms import utils

    f = flt.FMT[fb]
    dtype = f.ftype
    x = flt.bits_scalar(xb, f)
    out = []

    def same(y):
        return type(y) is dtype and flt.scalar_bits(y) == xb

    if flt.is_nan_bits(xb, f):
        s = utils.float2bin(x)
        if s != "nan" or not np.isnan(utils.bin2float(dtype, s)):
            out.append(("bin/nan", "float2bin(nan)=%r" % (s,)))
        for c in ctxs():
            m = utils.float2mpf(c, x)
            if not c.isnan(m) or not np.isnan(utils.mpf2float(dtype, m)):
                out.append(("mpf/nan", "float2mpf(nan)=%r" % (m,)))
        return out
    if flt.is_inf_bits(xb, f):
        s = utils.float2bin(x)
        if parse_bin(s) != ("-inf" if xb & f.sign_mask else "inf") or not same(utils.bin2float(dtype, s)):
            out.append(("bin/inf", "float2bin(%r)=%r" % (x, s)))
        for c in ctxs():
            m = utils.float2mpf(c, x)
            if not c.isinf(m) or not same(utils.mpf2float(dtype, m)):
                out.append(("mpf/inf", "float2mpf(%r)=%r" % (x, m)))
        q = utils.float2fraction(x)
        if not same(utils.fraction2float(dtype, q)):
            out.append(("fraction/inf", "fraction2float(float2fraction(%r)) = %r" % (x, utils.fraction2float(dtype, q))))
        return out

    zc = zclass(xb, f)
    exact = flt.bits2frac(xb, f)
    # 1. fraction
    q = utils.float2fraction(x)
    if not isinstance(q, Fraction) or q != exact:
        out.append(("fraction/value/" + zc, "float2fraction(%r)=%r, exact %r" % (x, q, exact)))
    else:
        y = utils.fraction2float(dtype, q)
        ok = same(y) or (zc == "negzero" and type(y) is dtype and flt.scalar_bits(y) == 0)  # a fraction cannot carry the sign of zero
        if not ok:
            out.append(("fraction/roundtrip/" + zc, "fraction2float(float2fraction(%r))=%r" % (x, y)))
        q2 = utils.number2fraction(x)
        if q2 != exact:
            out.append(("fraction/number2fraction/" + zc, "number2fraction(%r)=%r" % (x, q2)))
        y = utils.number2float(dtype, exact)
        if not (same(y) or (zc == "negzero" and flt.scalar_bits(y) == 0)):
            out.append(("fraction/number2float/" + zc, "number2float(%r)=%r" % (exact, y)))
    # 2. binary string
    s = utils.float2bin(x)
    v = parse_bin(s)
    if v is None:
        out.append(("bin/unparsable/" + zc, "float2bin(%r)=%r" % (x, s)))
    else:
        val = Fraction(0) if isinstance(v, tuple) else v
        if isinstance(v, str) or val != exact:
            out.append(("bin/value/" + zc, "float2bin(%r)=%r has value %r" % (x, s, v)))
        y = utils.bin2float(dtype, s)
        if not same(y):
            out.append(("bin/roundtrip/" + zc, "bin2float(float2bin(%r)=%r)=%r" % (x, s, y)))
        if utils.tobinary(x) != s:
            out.append(("bin/tobinary/" + zc, "tobinary != float2bin for %r" % (x,)))
    # 3. mpf, in contexts of three working precisions (also below the dtype's precision)
    for c in ctxs():
        # contexts narrower than the float are included: an mpf carries its own mantissa, float2mpf passes the float's
        # precision explicitly and asserts exactness, so the value must be exact whatever the working precision is
        m = utils.float2mpf(c, x)
        t = m._mpf_
        if mpf_value(t) != exact or int(t[3]) != int(t[1]).bit_length():
            out.append(("mpf/value/" + zc, "float2mpf(prec=%d, %r)._mpf_=%r" % (c.prec, x, t)))
            continue
        y = utils.mpf2float(dtype, m)
        if not same(y):
            out.append(("mpf/roundtrip/" + zc, "mpf2float(float2mpf(%r)) = %r (context prec %d)" % (x, y, c.prec)))
        if True:
            m2 = utils.number2mpf(c, x)
            if mpf_value(m2._mpf_) != exact:
                out.append(("mpf/number2mpf/" + zc, "number2mpf(%r)=%r" % (x, m2)))
            if c.prec < f.p:
                # expansion / multiword decomposition does arithmetic in the context of its argument (subtracting the
                # leading words); a context narrower than the float cannot carry those differences: outside the domain
                continue
            # 4. expansion / multiword of a single float
            ex = utils.mpf2expansion(dtype, m)
            if fsum(ex) != exact or any(type(e) is not dtype for e in ex):
                out.append(("expansion/value/" + zc, "mpf2expansion(%r)=%r" % (x, ex)))
            else:
                back = utils.expansion2mpf(c, ex)
                y = utils.mpf2float(dtype, back)
                if mpf_value(back._mpf_) != exact or not same(y):
                    out.append(("expansion/roundtrip/" + zc, "expansion2mpf(mpf2expansion(%r)) -> %r" % (x, y)))
            if zc not in ("negzero", "poszero"):
                mw = utils.mpf2multiword(dtype, m)
                if fsum(mw) != exact:
                    out.append(("multiword/value/" + zc, "mpf2multiword(%r)=%r" % (x, mw)))
                elif mw:
                    back = utils.multiword2mpf(c, mw)
                    y = utils.mpf2float(dtype, back)
                    if mpf_value(back._mpf_) != exact or not same(y):
                        out.append(("multiword/roundtrip/" + zc, "multiword2mpf(mpf2multiword(%r)) -> %r" % (x, y)))
    return out


def check_narrowing(src_bits, xb, dst_bits):
    """number2expansion / float2expansion of a wider float into narrower floats: the parts sum to the value exactly
    when nothing falls below the narrow format's smallest subnormal and nothing overflows."""
    from functional_algorithms import utils

    fs, fd = flt.FMT[src_bits], flt.FMT[dst_bits]
    x = flt.bits_scalar(xb, fs)
    exact = flt.bits2frac(xb, fs)
    if exact == 0 or abs(exact) >= fd.overflow_threshold:
        return []
    if (exact / fd.smallest_subnormal).denominator != 1:
        return []  # bits below the narrow lattice: truncation is expected
    with np.errstate(all="ignore"):
        ex = utils.number2expansion(fd.ftype, x)
    if any(type(e) is not fd.ftype or not np.isfinite(e) for e in ex):
        return [("narrow/type-or-nonfinite", "number2expansion(%s, %r)=%r" % (fd.name, x, ex))]
    tot = fsum(ex)
    if tot != exact:
        return [("narrow/value", "number2expansion(%s, %r)=%r sums to %r" % (fd.name, x, ex, float(tot)))]
    return []


def check_wide(fb, sign, man, exp):
    """A multiprecision value with a long mantissa -> expansion / multiword -> back."""
    import mpmath
    from functional_algorithms import utils

    f = flt.FMT[fb]
    dtype = f.ftype
    c = mpmath.mp  # the dispatchers test isinstance(x, mpmath.mpf), i.e. the global context's class
    with c.workprec(max(man.bit_length(), 1) + 8):
        return _check_wide(c, f, dtype, sign, man, exp)


def _check_wide(c, f, dtype, sign, man, exp):
    from functional_algorithms import utils

    m = c.mpf((sign, man, exp, man.bit_length()))  # exact construction (normalised by mpmath)
    exact = mpf_value((sign, man, exp, 0))
    out = []
    in_range = abs(exact) < f.largest and (exact / f.smallest_subnormal).denominator == 1
    with np.errstate(all="ignore"):
        ex = utils.mpf2expansion(dtype, m)
    if in_range:
        if any(type(e) is not dtype or not np.isfinite(e) for e in ex):
            out.append(("wide/expansion/nonfinite", "mpf2expansion(%s, %r)=%r" % (f.name, m, ex)))
        else:
            tot = fsum(ex)
            if tot != exact:
                out.append(("wide/expansion/value", "mpf2expansion(%s, man=%d exp=%d) sums to a different value" % (f.name, man, exp)))
            else:
                back = utils.expansion2mpf(c, ex)
                if mpf_value(back._mpf_) != exact:
                    out.append(("wide/expansion/roundtrip", "expansion2mpf(mpf2expansion(x)) != x for man=%d exp=%d" % (man, exp)))
                ex2 = utils.number2expansion(dtype, m)
                if [flt.scalar_bits(a) for a in ex2] != [flt.scalar_bits(a) for a in ex]:
                    out.append(("wide/expansion/number2expansion", "dispatcher differs"))
                # length / functional options: a prefix of the full expansion; fixed length padded with zeros
                bits = [flt.scalar_bits(a) for a in ex]
                for L in sorted({1, max(1, len(ex) - 1), len(ex), len(ex) + 2}):
                    with np.errstate(all="ignore"):
                        e1 = utils.mpf2expansion(dtype, m, length=L)
                        e2 = utils.mpf2expansion(dtype, m, length=L, functional=True)
                    if [flt.scalar_bits(a) for a in e1] != bits[:L]:
                        out.append(("wide/expansion/length-not-prefix", "mpf2expansion(%s, man=%d exp=%d, length=%d)=%r is not the first %d words of %r" % (f.name, man, exp, L, e1, L, ex)))
                    pad = bits[:L] + [0] * max(0, L - len(bits))
                    if len(e2) != max(L, 0) or any(type(a) is not dtype for a in e2) or [flt.scalar_bits(a) & ~f.sign_mask if flt.scalar_bits(a) & ~f.sign_mask == 0 else flt.scalar_bits(a) for a in e2] != [b & ~f.sign_mask if b & ~f.sign_mask == 0 else b for b in pad]:
                        out.append(("wide/expansion/functional-length", "mpf2expansion(%s, man=%d exp=%d, length=%d, functional=True)=%r, expected %d words: the prefix of %r padded with zeros" % (f.name, man, exp, L, e2, L, ex)))
        with np.errstate(all="ignore"):
            mw = utils.mpf2multiword(dtype, m)
        bc = man.bit_length()
        if mw and all(np.isfinite(e) for e in mw):
            # documented for every x: x == sum(result) + O(smallest subnormal); here with a generous constant
            tot = fsum(mw)
            if abs(tot - exact) > 4 * f.smallest_subnormal:
                out.append(("wide/multiword/far-from-value", "mpf2multiword(%s, man=%d exp=%d)=%r is %.3g away from x (documented: O(smallest subnormal))" % (f.name, man, exp, mw, _approx(abs(tot - exact)))))
        if mw and bc <= f.p * len(mw):  # documented exactness condition
            tot = fsum(mw)
            if tot != exact:
                out.append(("wide/multiword/value", "mpf2multiword(%s, man=%d exp=%d)=%r not exact although bc<=p*len" % (f.name, man, exp, mw)))
            else:
                back = utils.multiword2mpf(c, mw)
                if mpf_value(back._mpf_) != exact:
                    out.append(("wide/multiword/roundtrip", "multiword2mpf(mpf2multiword(x)) != x"))
        # options: word precision p' <= p and a bound on the number of words
        def sigbits(w):
            q = abs(flt.float2frac(w))
            return 0 if q == 0 else (q.numerator.bit_length() - (q.numerator & -q.numerator).bit_length() + 1)

        for pp in sorted({f.p, f.p - 1, max(2, f.p // 2)}):
            for ml in (None, 1, 2, 3):
                try:
                    with np.errstate(all="ignore"):
                        w = utils.mpf2multiword(dtype, m, p=pp, max_length=ml)
                except Exception as e:
                    out.append(("wide/multiword/options-raise/%s" % type(e).__name__, "mpf2multiword(%s, man=%d exp=%d, p=%d, max_length=%s) raised %r" % (f.name, man, exp, pp, ml, e)))
                    continue
                what = "mpf2multiword(%s, man=%d exp=%d, p=%d, max_length=%s)=%r" % (f.name, man, exp, pp, ml, w)
                if any(type(a) is not dtype or not np.isfinite(a) for a in w):
                    out.append(("wide/multiword/options-nonfinite", what))
                    continue
                if ml is not None and len(w) > ml:
                    out.append(("wide/multiword/options-too-long", what + " has more than max_length words"))
                body = w if ml is None else w[: max(0, ml - 1)]  # the last word may accumulate the tail when max_length is given
                if any(sigbits(a) > pp for a in body):
                    out.append(("wide/multiword/options-word-precision", what + ": a word has more than p significant bits"))
                if ml is None and w and bc <= pp * len(w) and fsum(w) != exact:
                    out.append(("wide/multiword/options-value", what + " is not exact although bc <= p*len"))
    return out


def replay(case):
    k = case["kind"]
    if k == "float":
        return check_float(case["fmt"], case["x"])
    if k == "narrow":
        return check_narrowing(case["src"], case["x"], case["dst"])
    if k == "wide":
        return check_wide(case["fmt"], case["sign"], int(case["man"]), case["exp"])
    raise ValueError(k)


def _float_shard(task):
    fb, bits = task
    f = flt.FMT[fb]
    p = Partial()
    for b in bits:
        b = int(b)
        for v in check_float(fb, b):
            p.violation(v[0], v[1], {"kind": "float", "fmt": fb, "x": b})
        if flt.is_finite_bits(b, f):
            zc = zclass(b, f)
            p.count(1, "f%d/%s" % (fb, zc))
            if zc in ("normal", "subnormal"):
                p.nontrivial((fb, b))
        else:
            p.count(1, "f%d/nonfinite" % fb)
        if fb > 16 and flt.is_finite_bits(b, f):
            for dst in (16, 32):
                if dst < fb:
                    for v in check_narrowing(fb, b, dst):
                        p.violation(v[0], v[1], {"kind": "narrow", "src": fb, "x": b, "dst": dst})
                    p.count(1, "narrow/%d->%d" % (fb, dst))
    if len(bits):
        b = int(bits[len(bits) // 3])
        from functional_algorithms import utils

        if flt.is_finite_bits(b, f):
            x = flt.bits_scalar(b, f)
            p.sample({"fmt": fb, "x": x, "float2bin": utils.float2bin(x), "float2fraction": utils.float2fraction(x)})
    return p


def wide_strategy():
    st = hyp.st

    @st.composite
    def s(draw):
        fb = draw(st.sampled_from([16, 32, 64]))
        f = flt.FMT[fb]
        nwords = draw(st.integers(1, 6))
        shape = draw(st.sampled_from(["random", "ones", "sparse", "gap"]))
        nbits = draw(st.integers(1, f.p * nwords))
        if shape == "random":
            man = draw(st.integers(1, (1 << nbits) - 1))
        elif shape == "ones":
            man = (1 << nbits) - 1
        elif shape == "sparse":
            man = 0
            for _ in range(draw(st.integers(1, 5))):
                man |= 1 << draw(st.integers(0, nbits - 1))
        else:
            lo = draw(st.integers(1, (1 << min(nbits, f.p)) - 1))
            man = (1 << (nbits + draw(st.integers(0, 2 * f.p)))) | lo
        # place the value anywhere in the dtype's range (top exponent), incl. partly below the subnormal lattice
        top = draw(st.integers(f.emin - f.mbits, f.emax))
        exp = top - (man.bit_length() - 1)
        sign = draw(st.integers(0, 1))
        return (fb, sign, man, exp)

    return s()


def run(ctx):
    q = ctx.quick
    ctx.rule = (
        "every float16 bit pattern (exhaustive, incl. +-0, +-inf, NaNs); float32/float64: every exponent (all binades incl. all "
        "subnormal binades) x structured mantissas + random bit patterns; each through float2fraction/fraction2float, float2bin/"
        "bin2float (independent parser), float2mpf/mpf2float in mpmath contexts of precision p(dtype)..200, mpf2expansion/expansion2mpf, "
        "mpf2multiword/multiword2mpf, number2* dispatchers, number2expansion narrowing float64->float32/16; Hypothesis-generated "
        "multiprecision values with 1..6-word mantissas (random/all-ones/sparse/gapped) -> expansion and multiword round trips. "
        "Non-trivial = finite non-zero value (distinct by format and bit pattern) / wide value with more than one word."
    )
    ctx.assumptions = ["harness/flt.py exact value of a bit pattern", "mpmath's _mpf_ tuple means (-1)^s*man*2^exp"]
    from props.c14 import structured_bits

    tasks = [(16, ch) for ch in np.array_split(np.arange(1 << 16, dtype=np.uint64), 32)]
    for fb in (32, 64):
        bits = structured_bits(flt.FMT[fb], ctx.rng(1, fb), 3000 if q else 300000)
        tasks += [(fb, ch) for ch in np.array_split(bits, 32)]
    ctx.pmap(_float_shard, tasks)
    ctx.note("float16_exhaustive", True)

    def body(case, part):
        fb, sign, man, exp = case
        f = flt.FMT[fb]
        part.count(1, "wide/f%d/words%d" % (fb, -(-man.bit_length() // f.p)))
        if man.bit_length() > f.p:
            part.nontrivial(("wide", fb, sign, man, exp))
        if len(part.samples) < 3:
            part.sample({"fmt": fb, "sign": sign, "man": hex(man), "exp": exp})
        return check_wide(fb, sign, man, exp)

    hyp.drive(
        ctx,
        wide_strategy(),
        body,
        max_examples=3000 if q else 200000,
        name="wide",
        encode=lambda c: {"kind": "wide", "fmt": c[0], "sign": c[1], "man": str(c[2]), "exp": c[3]},
    )
