"""C03 — symmetries and cross-function identities of the algorithms hold bit for bit.

Oracle-free metamorphic relations on the expanded graphs (harness/npvec.py), compared as bit patterns with all NaNs
identified:  conj (all 14 complex functions, inputs with non-zero imaginary part), odd (asin, asinh, atan, atanh complex;
asin, asinh real), even (square), asinh(z) = -i asin(i z), atan(z) = -i atanh(i z), acosh(z) = +-i acos(z) by the sign of
im z, imag acos = -imag asin.  i*z is built exactly (complex(-im, re)).
"""

import warnings

import numpy as np

from harness import flt, npvec
from harness.runner import Partial

warnings.filterwarnings("ignore")
np.seterr(all="ignore")

CFUNCS = ["absolute", "acos", "acosh", "asin", "asinh", "atan", "atanh", "exp", "log", "log2", "log10", "log1p", "sqrt", "square"]
ODD_C = ["asin", "asinh", "atan", "atanh"]
ODD_R = ["asin", "asinh"]


def cbits(z):
    ft = np.float32 if z.dtype == np.complex64 else np.float64
    v = np.ascontiguousarray(z).view(ft)
    u = flt.np_bits(v).astype(np.uint64)
    nan = np.isnan(v)
    u = np.where(nan, np.uint64(0x7FF8DEADBEEF0000), u)
    return u.reshape(-1, 2)


def rbits(x):
    u = flt.np_bits(np.ascontiguousarray(x)).astype(np.uint64)
    return np.where(np.isnan(x), np.uint64(0x7FF8DEADBEEF0000), u)


def make_complex(re, im):
    ct = np.complex64 if re.dtype == np.float32 else np.complex128
    z = np.empty(len(re), dtype=ct)
    z.real = re
    z.imag = im
    return z


def ev(fname, dtype, z, nargs=1):
    g, ex = npvec.expanded_graph(fname, dtype, nargs)
    r = npvec.run_graph(g, [z])
    return np.asarray(r)


def mul_i(z):
    return make_complex(-z.imag, np.ascontiguousarray(z.real))


def mul_neg_i(w):
    # -i * (a + ib) = b - i a
    return make_complex(np.ascontiguousarray(w.imag), -w.real)


def zclass(re, im):
    zr, zi = re == 0, im == 0
    return np.where(zr & zi, 3, np.where(zi, 2, np.where(zr, 1, 0)))  # 0: Z0, 1: ZR (re=+-0), 2: ZI (im=+-0), 3: ZB


def on_cut_axis(fname, re, im, identity):
    """inputs with a zero component lying on the axis that carries the function's branch cut: the identity may depend on
    the sign of zero there and is not asserted"""
    zr, zi = re == 0, im == 0
    if fname in ("asin", "acos", "atanh", "acosh", "sqrt", "log", "log2", "log10", "log1p"):
        return zi  # cuts on the real axis
    if fname in ("asinh", "atan"):
        return zr  # cuts on the imaginary axis
    return np.zeros(len(re), dtype=bool)


def check_block(fb, re, im):
    f = flt.FMT[fb]
    ct = f.ctype
    z = make_complex(re, im)
    out = []
    stats = {}
    cls = zclass(re, im)

    def report(identity, fname, lhs_bits, rhs_bits, domain, offcut):
        bad = domain & np.any(lhs_bits != rhs_bits, axis=-1) if lhs_bits.ndim == 2 else domain & (lhs_bits != rhs_bits)
        stats["%s/%s" % (identity, fname)] = stats.get("%s/%s" % (identity, fname), 0) + int(domain.sum())
        for k in (0, 1, 2, 3):
            m = bad & (cls == k)
            if m.any():
                i = int(np.nonzero(m)[0][0])
                zone = ["Z0", "ZR", "ZI", "ZB"][k]
                # differences confined to the sign of a zero component of the result are classified separately
                lb, rb = lhs_bits[i], rhs_bits[i]
                only_zero_sign = bool(np.all((np.atleast_1d(lb) == np.atleast_1d(rb)) | (((np.atleast_1d(lb) | np.atleast_1d(rb)) & np.uint64(~f.sign_mask & ((1 << 64) - 1) if fb == 64 else 0x7FFFFFFF)) == 0)))
                kind = "zero-sign-of-result" if only_zero_sign else "value"
                out.append(("%s/%s/%s/%s" % (identity, fname, zone, kind), "%s for %s fails at z=%r (%d of %d inputs in class %s)" % (identity, fname, z[i], int(m.sum()), int((domain & (cls == k)).sum()), zone), {"fmt": fb, "re": int(flt.np_bits(re[i : i + 1])[0]), "im": int(flt.np_bits(im[i : i + 1])[0]), "identity": identity, "function": fname}))

    vals = {fn: ev(fn, ct, z) for fn in CFUNCS}
    zc = np.conjugate(z)
    nzim = im != 0
    for fn in CFUNCS:
        w = vals[fn]
        wc = ev(fn, ct, zc)
        if fn == "absolute":
            report("conj", fn, rbits(wc), rbits(w), nzim, None)
        else:
            report("conj", fn, cbits(wc), cbits(np.conjugate(w)), nzim, None)
    zn = -z
    for fn in ODD_C:
        wn = ev(fn, ct, zn)
        dom = ~on_cut_axis(fn, re, im, "odd")
        report("odd", fn, cbits(wn), cbits(-vals[fn]), dom, None)
    report("even", "square", cbits(ev("square", ct, zn)), cbits(vals["square"]), np.ones(len(re), dtype=bool), None)
    iz = mul_i(z)
    # asinh(z) = -i asin(i z)
    report("asinh=-i*asin(iz)", "asinh", cbits(vals["asinh"]), cbits(mul_neg_i(ev("asin", ct, iz))), np.ones(len(re), dtype=bool), None)
    report("atan=-i*atanh(iz)", "atan", cbits(vals["atan"]), cbits(mul_neg_i(ev("atanh", ct, iz))), np.ones(len(re), dtype=bool), None)
    # acosh(z) = i acos(z) if im z is not negative (sign bit clear), -i acos(z) otherwise
    ac = vals["acos"]
    pos = ~(im < 0)  # "not negative": -0.0 is not negative
    rot = np.where(pos[:, None], cbits(mul_i(ac)), cbits(mul_neg_i(ac)))
    report("acosh=+-i*acos", "acosh", cbits(vals["acosh"]), rot, np.ones(len(re), dtype=bool), None)
    report("imag(acos)=-imag(asin)", "acos", rbits(np.ascontiguousarray(vals["acos"].imag)), rbits(-np.ascontiguousarray(vals["asin"].imag)), np.ones(len(re), dtype=bool), None)
    nontrivial = (cls == 0) & np.isfinite(vals["asin"].real) & (vals["asin"].real != 0)
    return out, stats, int(nontrivial.sum())


def check_real_block(fb, x):
    f = flt.FMT[fb]
    out = []
    stats = {}
    for fn in ODD_R:
        a = ev(fn, f.ftype, x)
        b = ev(fn, f.ftype, -x)
        dom = np.ones(len(x), dtype=bool)
        bad = rbits(b) != rbits(-a)
        stats["odd-real/" + fn] = int(dom.sum())
        if bad.any():
            i = int(np.nonzero(bad)[0][0])
            zone = "zero" if x[i] == 0 else "nonzero"
            out.append(("odd-real/%s/%s" % (fn, zone), "%s(-x) != -%s(x) at x=%r (%d inputs)" % (fn, fn, x[i], int(bad.sum())), {"fmt": fb, "x": int(flt.np_bits(x[i : i + 1])[0]), "identity": "odd-real", "function": fn}))
    a = ev("square", f.ftype, x)
    b = ev("square", f.ftype, -x)
    bad = rbits(a) != rbits(b)
    stats["even-real/square"] = len(x)
    if bad.any():
        i = int(np.nonzero(bad)[0][0])
        out.append(("even-real/square", "square(-x) != square(x) at x=%r" % (x[i],), {"fmt": fb, "x": int(flt.np_bits(x[i : i + 1])[0]), "identity": "even-real", "function": "square"}))
    return out, stats


def gen_components(rng, f, n, kind):
    ft = f.ftype
    if kind == "G1":
        return flt.random_bits_floats(rng, n, f), flt.random_bits_floats(rng, n, f)
    if kind == "G2":
        def comp():
            e = rng.uniform(-12, 12, size=n)
            return (np.exp2(e) * rng.choice([-1.0, 1.0], size=n)).astype(ft)
        return comp(), comp()
    raise ValueError(kind)


def pool_values(f):
    from props.c02 import switch_points

    vals = set()
    for fn in ("asin", "acosh"):
        try:
            vals |= set(switch_points(fn, f))
        except Exception:
            pass
    sp = flt.special_values(f, neighbours=2)
    pts = np.array(sorted(vals), dtype=f.ftype)
    return np.unique(np.concatenate([sp, pts, -pts]))


def _task(task):
    fb, kind, n, seedtuple = task
    f = flt.FMT[fb]
    rng = np.random.Generator(np.random.PCG64(np.random.SeedSequence(list(seedtuple))))
    p = Partial()
    if kind in ("G1", "G2"):
        re, im = gen_components(rng, f, n, kind)
    elif kind == "lattice":
        sp = flt.special_values(f, neighbours=3)
        R, I = np.meshgrid(sp, sp)
        re, im = R.ravel().astype(f.ftype), I.ravel().astype(f.ftype)
    elif kind == "axes":
        pool = pool_values(f)
        zeros = np.array([0.0, -0.0], dtype=f.ftype)
        R1, I1 = np.meshgrid(zeros, pool)
        R2, I2 = np.meshgrid(pool, zeros)
        re = np.concatenate([R1.ravel(), R2.ravel()]).astype(f.ftype)
        im = np.concatenate([I1.ravel(), I2.ravel()]).astype(f.ftype)
    elif kind == "diag":
        # |re| == |im| exactly (the algorithms branch on ax == ay) and its 1-ULP neighbours
        a1, _ = gen_components(rng, f, n // 2, "G1")
        a2, _ = gen_components(rng, f, n - n // 2, "G2")
        re = np.concatenate([a1, a2]).astype(f.ftype)
        im = (re * rng.choice([-1.0, 1.0], size=n).astype(f.ftype)).astype(f.ftype)
        nb = rng.integers(0, 6, size=n)
        with np.errstate(all="ignore"):
            im = np.where(nb == 0, np.nextafter(im, f.ftype(np.inf)), np.where(nb == 1, np.nextafter(im, f.ftype(-np.inf)), im)).astype(f.ftype)
    elif kind == "expwin":
        # one component within a few units of +-log(largest), +-log(largest)/2, log(smallest) (where exp / cosh-type
        # intermediates over- or underflow while the result may still be representable), the other one an angle in any
        # quadrant or any float
        L = float(np.log(float(f.largest)))
        S = float(np.log(float(f.smallest_normal)))
        anchors = np.array([L, -L, L / 2, -L / 2, S, S - float(f.p) * 0.6931, 2 * L])
        a = (anchors[rng.integers(0, len(anchors), size=n)] + rng.uniform(-3, 3, size=n)).astype(f.ftype)
        ang = rng.uniform(-8, 8, size=n).astype(f.ftype)
        g1v = flt.random_bits_floats(rng, n, f)
        b = np.where(rng.random(n) < 0.7, ang, g1v).astype(f.ftype)
        swap = rng.random(n) < 0.3
        re = np.where(swap, b, a).astype(f.ftype)
        im = np.where(swap, a, b).astype(f.ftype)
    elif kind == "pool":
        pool = pool_values(f)
        a = pool[rng.integers(0, len(pool), size=n)]
        b = pool[rng.integers(0, len(pool), size=n)]
        g1 = flt.random_bits_floats(rng, n, f)
        sel = rng.integers(0, 3, size=n)
        re = np.where(sel == 1, g1, a).astype(f.ftype)
        im = np.where(sel == 2, g1, b).astype(f.ftype)
    CH = 200000
    for s in range(0, len(re), CH):
        out, stats, nt = check_block(fb, re[s : s + CH], im[s : s + CH])
        for cls, what, case in out:
            p.violation(cls, what, case)
        for k, v in stats.items():
            p.count(v, "f%d/%s/%s" % (fb, kind, k))
        rb = flt.np_bits(re[s : s + CH]).astype(np.uint64)
        ib = flt.np_bits(im[s : s + CH]).astype(np.uint64)
        p.nontrivial_many(rb * np.uint64(0x9E3779B97F4A7C15) ^ ib)
    x = re
    out, stats = check_real_block(fb, x)
    for cls, what, case in out:
        p.violation(cls, what, case)
    for k, v in stats.items():
        p.count(v, "f%d/%s/%s" % (fb, kind, k))
    if len(re):
        p.sample({"fmt": fb, "generator": kind, "z": make_complex(re[:1], im[:1])[0]})
    return p


def replay(case):
    fb = case["fmt"]
    f = flt.FMT[fb]
    if "x" in case:
        x = np.array([case["x"]], dtype=np.uint64).astype(f.utype).view(f.ftype)
        out, _ = check_real_block(fb, x)
        return [(c, w) for c, w, _ in out]
    re = np.array([case["re"]], dtype=np.uint64).astype(f.utype).view(f.ftype)
    im = np.array([case["im"]], dtype=np.uint64).astype(f.utype).view(f.ftype)
    out, _, _ = check_block(fb, re, im)
    return [(c, w) for c, w, _ in out if case["identity"] in c and case["function"] in c]


def run(ctx):
    q = ctx.quick
    ctx.rule = (
        "complex64 and complex128 inputs from: G1 uniform over bit patterns of both components, G2 components log-uniform in 2^-12..2^12, "
        "the full special-value lattice^2 (+-0 kept distinct, subnormals, +-1, +-largest, +-inf, +-1..3 ULP neighbours), both axes "
        "(re=+-0 / im=+-0) crossed with the threshold pool read out of the graphs, pool x random mixes, the diagonals |re| == |im| with 1-ULP neighbours, and windows of a few units around +-log(largest), +-log(largest)/2, log(smallest) in one component with an angle in the other; identities: conj (14 functions, "
        "im != 0), odd (asin, asinh, atan, atanh; off the axis carrying the cut), even (square), asinh=-i asin(iz), atan=-i atanh(iz), "
        "acosh=+-i acos, imag acos=-imag asin; real asin/asinh odd and square even. Comparison of bit patterns with NaNs identified. "
        "Non-trivial = input without zero component whose asin value is finite and non-zero; distinct by input bits."
    )
    ctx.assumptions = ["NpVec interpreter = NumPy-target semantics (cross-checked in C02)", "oddness is not asserted on the axis that carries the function's branch cut (zero component there)"]
    tasks = []
    for fb in (32, 64):
        n = 120000 if q else 6000000
        sh = 2 if q else 16
        for kind in ("G1", "G2", "pool", "diag", "expwin"):
            for s in range(sh):
                tasks.append((fb, kind, n // sh, (ctx.seed, 3, fb, s, len(kind))))
        tasks.append((fb, "lattice", 0, (0,)))
        tasks.append((fb, "axes", 0, (0,)))
    ctx.pmap(_task, tasks)
