"""C15 — multiprecision reference values are rounded correctly to the target type.

Part A: utils.mpf2float on Hypothesis-generated mpf values vs exact RN (harness/flt.py).
Part B: vectorize_with_mpmath / numpy_with_mpmath option plumbing (flush_subnormals x extra precision)
        on functions whose exact value is known in rational arithmetic (identity, negation, x/2, x*x, sqrt).
"""

import math
import warnings
from fractions import Fraction

import numpy as np

from harness import flt, hyp
from harness.runner import Partial

warnings.filterwarnings("ignore")
st = hyp.st


def make_mpf(ctx, sign, man, exp):
    import mpmath

    t = mpmath.libmp.from_man_exp(-man if sign else man, exp)  # exact, normalised
    return ctx.make_mpf(t)


_MPCTX = {}


def mpctx(prec):
    import mpmath

    if prec not in _MPCTX:
        c = mpmath.mp.clone()
        c.prec = prec
        _MPCTX[prec] = c
    return _MPCTX[prec]


def check_mpf2float(fb, sign, man, exp, ctxprec, flush=None):
    """flush: None = argument omitted (documented default: no flushing), False, True"""
    from functional_algorithms import utils

    f = flt.FMT[fb]
    dtype = f.ftype
    q = (-1 if sign else 1) * Fraction(man) * Fraction(2) ** exp
    x = make_mpf(mpctx(ctxprec), sign, man, exp)
    with np.errstate(all="ignore"):
        try:
            r = utils.mpf2float(dtype, x) if flush is None else utils.mpf2float(dtype, x, flush_subnormals=flush)
        except Exception as e:
            return [("mpf2float/raises/%s" % type(e).__name__, "mpf2float(%s, man=%d exp=%d) raised %r" % (f.name, man, exp, e))]
    fl = "" if flush is None else "/flush-%s" % flush
    if type(r) is not dtype:
        return [("mpf2float/dtype", "returned %s" % type(r).__name__)]
    rb = flt.scalar_bits(r)
    want = flt.RN(q, f, negzero=bool(sign))
    aq = abs(q)
    if aq >= f.overflow_threshold:
        if rb != want:
            return [("mpf2float/overflow", "mpf2float(%s, %s*%d*2^%d)=%r, expected %sinf" % (f.name, "-" if sign else "", man, exp, r, "-" if sign else ""))]
        return []
    if aq < f.smallest_subnormal / 2:
        if rb != (f.sign_mask if sign else 0):
            return [("mpf2float/underflow-signed-zero", "mpf2float(%s, %s%d*2^%d)=%r, expected %s0" % (f.name, "-" if sign else "", man, exp, r, "-" if sign else ""))]
        return []
    if (want & ~f.sign_mask) >= f.smallest_normal_bits:
        if flush is True and rb == (f.sign_mask if sign else 0):
            # flushing is decided on the value rounded to p bits with unbounded exponent ("tiny after rounding", as the
            # hardware does): a value that is still below the smallest normal then, e.g. (2^p - 1) 2^(emin-p), may be
            # flushed although round-to-nearest on the subnormal lattice would carry it up to the smallest normal
            e = aq.numerator.bit_length() - aq.denominator.bit_length()
            if Fraction(2) ** e > aq:
                e -= 1
            u = Fraction(2) ** (e - f.p + 1)
            k = aq / u
            kf = k.numerator // k.denominator
            rem = k - kf
            kf += 1 if (rem > Fraction(1, 2) or (rem == Fraction(1, 2) and kf % 2 == 1)) else 0
            if kf * u < f.smallest_normal:
                return []
        if rb != want:
            tie = "tie" if (q / flt.ulp_frac(q, f) * 2).denominator == 1 and (q / flt.ulp_frac(q, f)).denominator != 1 else "nontie"
            edge = "overflow-edge" if aq > f.largest else "interior"
            return [
                (
                    "mpf2float/normal-not-nearest/%s/%s%s" % (tie, edge, fl),
                    "mpf2float(%s, %s%d*2^%d%s)=%r, correctly rounded is %r" % (f.name, "-" if sign else "", man, exp, ", flush_subnormals=%s" % flush if flush is not None else "", r, flt.bits_scalar(want, f)),
                )
            ]
        return []
    if flush is True and 0 < (rb & ~f.sign_mask) < f.smallest_normal_bits:
        return [("mpf2float/subnormal-returned-with-flush", "mpf2float(%s, %s%d*2^%d, flush_subnormals=True)=%r is subnormal" % (f.name, "-" if sign else "", man, exp, r))]
    return []  # subnormal result: nothing else is claimed


@st.composite
def mpf_cases(draw):
    fb = draw(st.sampled_from([16, 32, 64]))
    f = flt.FMT[fb]
    p = f.p
    nbits = draw(st.sampled_from([p, p + 1, p + 2, p + 5, 2 * p, 3 * p + 7, 200]))
    shape = draw(st.sampled_from(["random", "tie", "tie+1", "tie-1", "ones", "pow2", "short"]))
    extra = nbits - p
    if shape == "random":
        man = draw(st.integers(1 << (nbits - 1), (1 << nbits) - 1))
    elif shape == "short":
        man = draw(st.integers(1, (1 << p) - 1))
    elif shape == "ones":
        man = (1 << nbits) - 1
    elif shape == "pow2":
        man = 1 << (nbits - 1)
    else:
        prefix = draw(st.integers(1 << (p - 1), (1 << p) - 1))
        if draw(st.booleans()):
            prefix = draw(st.sampled_from([(1 << p) - 1, 1 << (p - 1), (1 << (p - 1)) + 1, (1 << p) - 2]))
        if extra == 0:
            man = prefix
        else:
            man = (prefix << extra) | (1 << (extra - 1))
            if shape == "tie+1":
                man += 1
            elif shape == "tie-1":
                man -= 1
    # exponent of the leading bit
    where = draw(st.sampled_from(["any", "any", "overflow", "subnormal", "underflow", "normal-edge"]))
    if where == "any":
        top = draw(st.integers(f.emin - p - 3, f.emax + 3))
    elif where == "overflow":
        top = draw(st.integers(f.emax - 1, f.emax + 1))
    elif where == "subnormal":
        top = draw(st.integers(f.emin - p, f.emin))
    elif where == "underflow":
        top = draw(st.integers(f.emin - p - 2, f.emin - p + 1))
    else:
        top = draw(st.integers(f.emin - 1, f.emin + 1))
    exp = top - (man.bit_length() - 1)
    sign = draw(st.integers(0, 1))
    ctxprec = draw(st.sampled_from([p, 53, 113, 300]))
    flush = draw(st.sampled_from([None, None, False, True, True]))
    return (fb, sign, man, exp, ctxprec, flush)


# ---------------------------------------------------------------- part B

FUNCS = ("identity", "negative", "half", "square", "sqrt", "np.positive", "np.negative", "np.square", "np.sqrt")


def _pyfunc(name):
    if name == "identity":
        return lambda x: x
    if name == "negative":
        return lambda x: -x
    if name == "half":
        return lambda x: x / 2
    if name == "square":
        return lambda x: x * x
    if name == "sqrt":
        return lambda x: x.context.sqrt(x)
    raise ValueError(name)


def _exact(name, q):
    """Exact value of the function at rational q, or ('sqrt', q) marker."""
    name = name.replace("np.", "")
    if name in ("identity", "positive"):
        return q
    if name == "negative":
        return -q
    if name == "half":
        return q / 2
    if name == "square":
        return q * q
    if name == "sqrt":
        return ("sqrt", q)
    raise ValueError(name)


def _rn_sqrt(q, f):
    """Correctly rounded sqrt of a non-negative rational, exactly (integer square root with sticky bit)."""
    if q == 0:
        return 0, True
    # scale so that the integer sqrt has > p+3 bits
    n, d = q.numerator, q.denominator
    # enough bits to place the root relative to any rounding midpoint of the p + extra bit lattices used by the backend
    # (extra_prec_multiplier up to 20): 22 p + 80 fractional bits
    k = 2 * (22 * f.p + 80) + max(0, d.bit_length() - n.bit_length() + 2)
    k += k & 1
    num = (n << k) // d
    exact_div = (n << k) % d == 0
    s = math.isqrt(num)
    exact = exact_div and s * s == num
    # value = s / 2^(k/2) (+ tiny if not exact)
    v = Fraction(s, 1 << (k // 2))
    if not exact:
        v += Fraction(1, 1 << (k // 2 + 2))  # sticky: strictly between s and s+1, never on a midpoint of a p-bit lattice
    return v, exact


def backend_call(name, params, fb, xbits, as_array, cplx=False):
    from functional_algorithms import utils

    f = flt.FMT[fb]
    kw = {}
    if params["flush"] == "sentinel":
        kw["flush_subnormals"] = utils.UNSPECIFIED  # the package's own "not specified" value passed explicitly (callers forward it)
    elif params["flush"] != "unspecified":
        kw["flush_subnormals"] = params["flush"]
    if params["extra_prec"]:
        kw["extra_prec"] = params["extra_prec"]
    if params["mult"]:
        kw["extra_prec_multiplier"] = params["mult"]
    if name.startswith("np."):
        v = getattr(utils.numpy_with_mpmath(**kw), name[3:])
    else:
        v = utils.vectorize_with_mpmath(_pyfunc(name), **kw)
    xs = np.array(xbits, dtype=np.uint64).astype(f.utype).view(f.ftype)
    if cplx:
        z = (xs[0::2].astype(f.ctype) + 1j * xs[1::2].astype(f.ctype)).astype(f.ctype)
        # build exactly (avoid 0*inf): view trick
        z = np.empty(len(xs) // 2, dtype=f.ctype)
        z.view(f.ftype)[0::2] = xs[0::2]
        z.view(f.ftype)[1::2] = xs[1::2]
        arg = z if as_array else z[0]
    else:
        arg = xs if as_array else xs[0]
    with np.errstate(all="ignore"):
        return v(arg)


def check_backend(name, params, fb, xbits, as_array, cplx=False):
    f = flt.FMT[fb]
    try:
        res = backend_call(name, params, fb, xbits, as_array, cplx)
    except Exception as e:
        return [("backend/raises/%s/%s" % (name, type(e).__name__), "%s%r on %r raised %r" % (name, params, xbits, e))]
    res = np.atleast_1d(np.asarray(res))
    out = []
    want_dtype = f.ctype if cplx else f.ftype
    if res.dtype != want_dtype:
        return [("backend/dtype/%s" % name, "%s on %s returned dtype %s" % (name, want_dtype.__name__, res.dtype))]
    if cplx:
        res = res.view(f.ftype)
        n_used = len(res)
    else:
        n_used = len(res)
    xb = list(xbits)[:n_used] if as_array else list(xbits)[: (2 if cplx else 1)]
    flush = params["flush"] is True
    extra = params["extra_prec"] + int(f.p * params["mult"])
    fl = "flush-" + str(params["flush"])
    for b, r in zip(xb, res):
        b = int(b)
        rb = flt.scalar_bits(r)
        q = flt.bits2frac(b, f)
        neg_in = bool(b & f.sign_mask)
        ex = _exact(name, q)
        inexact_sqrt = False
        if isinstance(ex, tuple):
            if q < 0:
                continue
            ex, isex = _rn_sqrt(q, f)
            inexact_sqrt = not isex
        # sign of a zero result
        nm = name.replace("np.", "")
        negzero = {"identity": neg_in, "positive": neg_in, "negative": not neg_in, "half": neg_in, "square": False, "sqrt": neg_in}[nm]
        want = flt.RN(ex, f, negzero=negzero)
        wmag = want & ~f.sign_mask
        in_sub = flt.is_subnormal_bits(b, f)
        out_sub_exact = ex != 0 and abs(ex) < f.smallest_normal
        if flush:
            # explicit flushing: no subnormal may come out; normal results are unaffected
            if flt.is_subnormal_bits(rb, f):
                out.append(("backend/%s/subnormal-output-not-flushed" % (fl,), "%s(%r) with flush_subnormals=True returned subnormal %r" % (name, flt.bits_scalar(b, f), r)))
            elif wmag >= f.smallest_normal_bits and not out_sub_exact and rb != want and not _double_rounding_excuse(ex, f, extra, name, inexact_sqrt):
                out.append(("backend/%s/normal-result-wrong/%s" % (fl, name), "%s(%r)=%r, correctly rounded %r" % (name, flt.bits_scalar(b, f), r, flt.bits_scalar(want, f))))
            continue
        # no flushing requested (unspecified or False): subnormal inputs and outputs are preserved
        if ex != 0 and (rb & ~f.sign_mask) == 0 and abs(ex) >= f.smallest_subnormal:
            cls = "subnormal-input-lost" if in_sub else "subnormal-output-lost"
            out.append(("backend/%s/%s" % (fl, cls), "%s(%r)=%r with flush_subnormals=%s (exact result %.6g is representable as a subnormal)" % (name, flt.bits_scalar(b, f), r, params["flush"], float(ex))))
            continue
        exact_fn = nm in ("identity", "positive", "negative", "half")
        if exact_fn or wmag >= f.smallest_normal_bits:
            if rb != want:
                if not exact_fn and _double_rounding_excuse(ex, f, extra, name, inexact_sqrt):
                    continue
                if wmag == 0 and (rb & ~f.sign_mask) == 0:
                    # sign of an exact zero result (f(+-0)): mpmath's mpf has no signed zero and the property
                    # makes no claim about it (the sign of results that *underflow* to zero is checked in part A)
                    continue
                kind = "subnormal-result" if wmag < f.smallest_normal_bits else "normal-result"
                out.append(("backend/%s/%s-wrong/%s" % (fl, kind, name), "%s(%r)=%r, correctly rounded %r (extra precision %d bits)" % (name, flt.bits_scalar(b, f), r, flt.bits_scalar(want, f), extra)))
        else:
            # inexact function with subnormal result: several roundings are involved; require <= 1 lattice step
            if abs(flt.index(rb, f) - flt.index(want, f)) > 1:
                out.append(("backend/%s/subnormal-result-far/%s" % (fl, name), "%s(%r)=%r, correctly rounded %r" % (name, flt.bits_scalar(b, f), r, flt.bits_scalar(want, f))))
    return out


def _double_rounding_excuse(ex, f, extra, name, inexact_sqrt):
    """With extra working precision the backend rounds twice (to p+extra bits, then to p bits).  That can differ from
    single rounding only when the exact value lies within one unit of the (p+extra)-bit lattice of a p-bit midpoint."""
    if extra == 0:
        return False
    u = flt.ulp_frac(ex, f)
    mid_dist = abs((abs(ex) / u) % 1 - Fraction(1, 2))  # distance to the nearest midpoint in units of ulp
    return mid_dist <= Fraction(1, 1 << (extra - 1))


@st.composite
def backend_cases(draw):
    fb = draw(st.sampled_from([16, 32, 64]))
    f = flt.FMT[fb]
    name = draw(st.sampled_from(FUNCS))
    params = {
        "flush": draw(st.sampled_from(["unspecified", "sentinel", False, True])),
        "extra_prec": draw(st.sampled_from([0, 0, 1, 20])),
        "mult": draw(st.sampled_from([0, 0, 1, 20])),
    }
    as_array = draw(st.booleans())
    cplx = fb > 16 and name in ("identity", "negative", "np.positive", "np.negative") and draw(st.booleans())
    n = draw(st.integers(1, 4)) if as_array else 1
    if cplx:
        n *= 2

    def one():
        kind = draw(st.sampled_from(["subnormal", "subnormal", "tiny-normal", "sqrt-tiny", "any", "zero", "huge"]))
        s = draw(st.integers(0, 1)) << (f.bits - 1)
        if kind == "subnormal":
            m = draw(st.integers(1, f.smallest_normal_bits - 1))
        elif kind == "tiny-normal":
            m = draw(st.integers(f.smallest_normal_bits, f.smallest_normal_bits * 4))
        elif kind == "sqrt-tiny":
            # x*x lands in/near the subnormal range
            c = flt.index(flt.RN(Fraction(2) ** (f.emin // 2), f), f)
            m = c + draw(st.integers(-(3 << f.mbits), 3 << f.mbits))
            m = max(1, m)
        elif kind == "zero":
            m = 0
        elif kind == "huge":
            m = draw(st.integers(f.largest_bits - (2 << f.mbits), f.largest_bits))
        else:
            m = draw(st.integers(0, f.largest_bits))
        return s | m

    xbits = [one() for _ in range(n)]
    if name in ("sqrt", "np.sqrt"):
        xbits = [b & ~f.sign_mask for b in xbits]
    return (name, params, fb, xbits, as_array, cplx)


def replay(case):
    k = case["kind"]
    if k == "mpf2float":
        return check_mpf2float(case["fmt"], case["sign"], int(case["man"]), case["exp"], case["ctxprec"], case.get("flush"))
    if k == "add3":
        return check_add3(case)
    if k == "backend":
        p = dict(case["params"])
        return check_backend(case["name"], p, case["fmt"], case["xbits"], case["as_array"], case.get("cplx", False))
    raise ValueError(k)


def _mpf_shard(task):
    """Seeded hypothesis search per shard (parallel), returns Partial."""
    from harness.runner import Ctx

    seed, shard, n, known = task
    sub = Ctx("C15", "quick", seed * 64 + shard, known)

    def body(case, part):
        fb, sign, man, exp, cp, flush = case
        f = flt.FMT[fb]
        q = Fraction(man) * Fraction(2) ** exp
        region = "overflow" if q >= f.overflow_threshold else ("underflow" if q < f.smallest_subnormal / 2 else ("subnormal" if q < f.smallest_normal else "normal"))
        part.count(1, "mpf2float/f%d/%s" % (fb, region))
        part.label("mpf2float/flush-%s" % flush)
        if man.bit_length() > f.p and region != "subnormal":
            part.nontrivial(("m", fb, sign, man, exp))
        if len(part.samples) < 1:
            part.sample({"kind": "mpf2float", "fmt": fb, "sign": sign, "man": hex(man), "exp": exp, "region": region})
        return check_mpf2float(fb, sign, man, exp, cp, flush)

    hyp.drive(sub, mpf_cases(), body, n, name="mpf2float", encode=lambda c: {"kind": "mpf2float", "fmt": c[0], "sign": c[1], "man": str(c[2]), "exp": c[3], "ctxprec": c[4], "flush": c[5]}, stream=shard)
    p = Partial()
    p.merge(sub)
    return p


def _backend_shard(task):
    from harness.runner import Ctx

    seed, shard, n, known = task
    sub = Ctx("C15", "quick", seed * 64 + shard, known)

    def body(case, part):
        name, params, fb, xbits, as_array, cplx = case
        f = flt.FMT[fb]
        part.count(1, "backend/%s/flush-%s/extra%d-mult%d" % (name, params["flush"], params["extra_prec"], params["mult"]))
        if any(flt.is_subnormal_bits(b, f) for b in xbits):
            part.nontrivial(("b", name, str(params), fb, tuple(xbits), as_array, cplx))
        if len(part.samples) < 1:
            part.sample({"kind": "backend", "name": name, "params": params, "fmt": fb, "x": [flt.bits_scalar(b, f) for b in xbits], "array": as_array, "complex": cplx})
        return check_backend(name, params, fb, xbits, as_array, cplx)

    hyp.drive(
        sub,
        backend_cases(),
        body,
        n,
        name="backend",
        encode=lambda c: {"kind": "backend", "name": c[0], "params": c[1], "fmt": c[2], "xbits": c[3], "as_array": c[4], "cplx": c[5]},
        stream=100 + shard,
    )
    p = Partial()
    p.merge(sub)
    return p


def check_add3(case):
    """x + y + z through the backend with enough extra precision for the sum to be exact in the working precision:
    y = +-ulp(x)/2 puts the sum on (z == 0) or just beside (z tiny) a rounding midpoint of the target format, so any
    intermediate rounding (e.g. through a 53-bit Python float) shows as a wrong last bit."""
    from functional_algorithms import utils

    fb, xb, ysign, k, zsign, params, as_array = case["fmt"], case["x"], case["ysign"], case["k"], case["zsign"], case["params"], case["as_array"]
    f = flt.FMT[fb]
    x = flt.bits2frac(xb, f)
    u = flt.ulp_frac(x, f)
    y = ysign * u / 2
    z = Fraction(0) if k is None else zsign * u * Fraction(2) ** (-k)
    vals = [flt.RN(v, f) for v in (x, y, z)]
    if any(flt.bits2frac(b, f) != v for b, v in zip(vals, (x, y, z))):
        return []  # an operand is not representable (x too close to the subnormal range)
    kw = {}
    if params["flush"] == "sentinel":
        kw["flush_subnormals"] = utils.UNSPECIFIED
    elif params["flush"] != "unspecified":
        kw["flush_subnormals"] = params["flush"]
    if params["extra_prec"]:
        kw["extra_prec"] = params["extra_prec"]
    if params["mult"]:
        kw["extra_prec_multiplier"] = params["mult"]
    fn = utils.vectorize_with_mpmath(lambda a, b, c: a + b + c, **kw)
    args = [np.array([b] * (3 if as_array else 1), dtype=np.uint64).astype(f.utype).view(f.ftype) for b in vals]
    if not as_array:
        args = [a[0] for a in args]
    try:
        with np.errstate(all="ignore"):
            res = np.atleast_1d(np.asarray(fn(*args)))
    except Exception as e:
        return [("backend/add3/raises/%s" % type(e).__name__, "x+y+z%r raised %r" % (params, e))]
    want = flt.RN(x + y + z, f)
    out = []
    for r in res:
        if res.dtype != f.ftype or flt.scalar_bits(r) != want:
            out.append(("backend/add3/not-correctly-rounded/%s" % ("tie" if k is None else "beside-midpoint"), "backend x+y+z with x=%r y=%r z=%r %r %s = %r, correctly rounded %r" % (flt.bits_scalar(vals[0], f), flt.bits_scalar(vals[1], f), flt.bits_scalar(vals[2], f), params, "array" if as_array else "scalar", r, flt.bits_scalar(want, f))))
            break
    return out


def _add3_shard(task):
    seed, shard, n = task
    p = Partial()
    rng = np.random.Generator(np.random.PCG64([seed, 153, shard]))
    for _ in range(n):
        fb = int(rng.choice([16, 32, 64]))
        f = flt.FMT[fb]
        e = int(rng.integers(f.emin + f.p + 2, f.emax - 2))
        xb = ((e + f.bias) << f.mbits) | int(rng.integers(0, 1 << f.mbits)) | (int(rng.integers(0, 2)) << (f.bits - 1))
        kmax = min(60, e - f.emin - f.p)  # z must stay a normal number
        k = None if rng.random() < 0.25 or kmax < 3 else int(rng.integers(2, kmax + 1))
        need = (k or 0) + 4  # bits beyond p the exact sum needs
        extra, mult = (int(rng.choice([need + 8, 100])), 0) if rng.random() < 0.5 else (0, int(-(-(need + 8) // f.p)))
        case = {"kind": "add3", "fmt": fb, "x": xb, "ysign": int(rng.choice([-1, 1])), "k": k, "zsign": int(rng.choice([-1, 1])), "params": {"flush": str(rng.choice(["unspecified", "sentinel", "False"])), "extra_prec": extra, "mult": mult}, "as_array": bool(rng.integers(0, 2))}
        if case["params"]["flush"] == "False":
            case["params"]["flush"] = False
        bad = check_add3(case)
        p.count(1, "backend/add3/f%d/%s" % (fb, "tie" if k is None else "beside-midpoint"))
        p.nontrivial(("add3", fb, xb, case["ysign"], k, case["zsign"]))
        for cls, what in bad:
            p.violation(cls, what, case)
    return p


def run(ctx):
    q = ctx.quick
    ctx.rule = (
        "mpf2float: Hypothesis-generated mpf values (mantissa length p..200 bits; random / exact ties / ties +-1 unit of the long "
        "mantissa / all-ones / power of two; leading-bit exponent anywhere, with extra mass at the overflow edge, the normal/subnormal "
        "edge and half the smallest subnormal; both signs; context precisions p..300) compared with exact round-to-nearest-even; "
        "backend: identity, negation, x/2, x*x, sqrt through vectorize_with_mpmath and numpy_with_mpmath for flush_subnormals in "
        "{unspecified, False, True} x extra_prec {0,1,20} x extra_prec_multiplier {0,1,20}, scalars, arrays and complex values, "
        "inputs biased to subnormals and to results near the subnormal range; a three-argument sum x + y + z with y = +-ulp(x)/2 and z zero or "
        "tiny, evaluated with enough extra precision to be exact before the final rounding (ties and values beside a midpoint). Non-trivial = mantissa longer than the target precision "
        "with a result outside the subnormal range / backend call with at least one subnormal input; distinct by full case."
    )
    ctx.assumptions = [
        "harness/flt.py RN is the reference rounding",
        "nothing is asserted for values whose correctly rounded result is subnormal in mpf2float (as the property states)",
        "with extra working precision a result may legitimately differ when the exact value is within 2^-(extra-1) ulp of a rounding midpoint (double rounding)",
    ]
    nsh = 16
    n1 = (1500 if q else 60000)
    n2 = (250 if q else 8000)
    known = ctx.known
    ctx.pmap(_mpf_shard, [(ctx.seed, s, n1, known) for s in range(nsh)])
    ctx.pmap(_backend_shard, [(ctx.seed, s, n2, known) for s in range(nsh)])
    ctx.pmap(_add3_shard, [(ctx.seed, s, 60 if q else 3000) for s in range(nsh)])
