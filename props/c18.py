"""C18 — FPU control context always restores MXCSR.

Histories are generated as *programs* of nested `with` blocks (immediate contexts, contexts created earlier and entered
later, decorated functions incl. recursion), probes and raised exceptions caught at a generated outer level, and are
executed with real `with` statements.  MXCSR is observed through the harness's own stmxcsr/ldmxcsr stubs.
Model: the control bits (6..15: DAZ, exception masks, rounding mode, FZ) as a stack discipline.
"""

import ctypes
import mmap
import warnings

import numpy as np

from harness import hyp
from harness.runner import Partial

warnings.filterwarnings("ignore")
st = hyp.st

CONTROL = 0xFFC0  # bits 6..15; bits 0..5 are sticky status flags that arithmetic changes spontaneously


class _Reg:
    def __init__(self):
        buf = mmap.mmap(-1, mmap.PAGESIZE, prot=mmap.PROT_READ | mmap.PROT_WRITE)
        self._buf = buf
        ld = b"\x0f\xae\x17\xc3" + b"\x90" * 4  # ldmxcsr [rdi]; ret
        stx = b"\x0f\xae\x1f\xc3" + b"\x90" * 4  # stmxcsr [rdi]; ret
        addr = ctypes.addressof(ctypes.c_void_p.from_buffer(buf))
        buf.write(ld)
        buf.write(stx)
        mprotect = ctypes.CDLL(None, use_errno=True).mprotect
        mprotect.argtypes = [ctypes.c_void_p, ctypes.c_size_t, ctypes.c_int]
        mprotect.restype = ctypes.c_int
        if mprotect(addr, mmap.PAGESIZE, mmap.PROT_READ | mmap.PROT_EXEC) != 0:
            raise OSError("mprotect failed")
        self._ld = ctypes.CFUNCTYPE(None, ctypes.POINTER(ctypes.c_uint32))(addr)
        self._st = ctypes.CFUNCTYPE(None, ctypes.POINTER(ctypes.c_uint32))(addr + len(ld))

    def read(self):
        v = ctypes.c_uint32()
        self._st(ctypes.byref(v))
        return v.value

    def write(self, val):
        self._ld(ctypes.byref(ctypes.c_uint32(val)))


_REG = None


def reg():
    global _REG
    if _REG is None:
        _REG = _Reg()
    return _REG


def apply_args(word, spec):
    FZ, DAZ, RN = spec
    if RN is not None:
        r = dict(nearest=0, down=1, up=2, towardszero=3)[RN]
        word = (word & ~(3 << 13)) | (r << 13)
    if FZ is not None:
        word = (word | (1 << 15)) if FZ else (word & ~(1 << 15))
    if DAZ is not None:
        word = (word | (1 << 6)) if DAZ else (word & ~(1 << 6))
    return word & CONTROL


class Boom(Exception):
    pass


class Found(Exception):
    def __init__(self, cls, what):
        self.cls, self.what = cls, what


def probes(word):
    """Arithmetic observations implied by the control word; returns list of mismatches."""
    bad = []
    f32 = np.float32
    tiny = np.finfo(np.float32).smallest_normal
    sub = np.finfo(np.float32).smallest_subnormal
    with np.errstate(all="ignore"):
        # results are inspected through their bit patterns: a comparison would itself be subject to DAZ
        fz = int((tiny * f32(0.5)).view(np.uint32)) & 0x7FFFFFFF == 0
        daz = (int((sub * f32(1)).view(np.uint32)) & 0x7FFFFFFF == 0) if not (word >> 15) & 1 else None  # with FZ the product flushes anyway
        one = f32(1)
        e = f32(2.0**-24)
        up = bool((one + e) > one)
        dn = bool((-one - e) < -one)
    rn = (word >> 13) & 3
    if fz != bool((word >> 15) & 1):
        bad.append("flush-to-zero observed=%s, control word says %s" % (fz, bool((word >> 15) & 1)))
    if daz is not None and daz != bool((word >> 6) & 1):
        bad.append("denormals-are-zero observed=%s, control word says %s" % (daz, bool((word >> 6) & 1)))
    if up != (rn == 2):
        bad.append("1+2^-24 rounds up=%s, rounding mode is %d" % (up, rn))
    if dn != (rn == 1):
        bad.append("-1-2^-24 rounds down=%s, rounding mode is %d" % (dn, rn))
    return bad


def execute(program):
    """Run one history against functional_algorithms.fpu; returns list of (cls, what)."""
    from functional_algorithms import fpu

    R = reg()
    initial = R.read()
    created = []  # (spec, context object, word at creation)
    found = []
    stats = {"max_depth": 0, "exception_exits": 0, "precreated_entries": 0, "reentries": 0, "withs": 0}

    def fail(cls, what):
        raise Found(cls, what)

    def make(spec):
        return fpu.context(FZ=spec[0], DAZ=spec[1], RN=spec[2])

    def with_block(cm, spec, origin, body, depth, active):
        before = R.read() & CONTROL
        stats["withs"] += 1
        stats["max_depth"] = max(stats["max_depth"], depth + 1)
        entered = False
        try:
            try:
                cmx = cm.__enter__  # noqa: F841  (attribute must exist)
            except AttributeError:
                fail("not-a-context-manager", "fpu.context() result has no __enter__")
            try:
                with cm:
                    entered = True
                    inside = R.read() & CONTROL
                    want = apply_args(before, spec)
                    if inside != want:
                        fail(
                            "enter-changes-unrequested-bits/%s" % origin,
                            "entering context(FZ=%s, DAZ=%s, RN=%s) [%s] at depth %d: control bits %#06x -> %#06x, expected %#06x" % (spec[0], spec[1], spec[2], origin, depth, before, inside, want),
                        )
                    run_block(body, depth + 1, active + [cm])
                    still = R.read() & CONTROL
            except (Boom, Found):
                raise
            except AssertionError as e:
                if not entered:
                    fail("enter-raises/%s" % origin, "entering a context [%s] raised AssertionError %r (depth %d)" % (origin, e, depth))
                raise
        except Boom:
            stats["exception_exits"] += 1
            after = R.read() & CONTROL
            if after != before:
                fail("exit-not-restored/exception/%s" % origin, "after exceptional exit at depth %d control bits are %#06x, were %#06x on entry" % (depth, after, before))
            raise
        after = R.read() & CONTROL
        if after != before:
            fail("exit-not-restored/normal/%s" % origin, "after normal exit at depth %d control bits are %#06x, were %#06x on entry" % (depth, after, before))

    def run_block(stmts, depth, active):
        for s in stmts:
            k = s[0]
            if k == "with":
                with_block(make(s[1]), s[1], "immediate", s[2], depth, active)
            elif k == "create":
                created.append((s[1], make(s[1])))
            elif k == "with_pre":
                if created:
                    spec, cm = created[s[1] % len(created)]
                    re = any(cm is a for a in active)
                    stats["precreated_entries"] += 1
                    stats["reentries"] += int(re)
                    with_block(cm, spec, "re-entered" if re else "pre-created", s[2], depth, active)
            elif k == "decorated":
                spec = s[1]
                cm = make(spec)
                state = {"n": 0}
                before = R.read() & CONTROL

                def body(level, s=s, cm=cm, spec=spec):
                    inside = R.read() & CONTROL
                    # inside a decorated function only the requested bits differ from the caller's word
                    run_block(s[2], depth + 1 + level, active + [cm])
                    if level < s[3]:
                        stats["reentries"] += 1
                        fn(level + 1)
                    return inside

                fn = cm(body)
                stats["withs"] += 1
                stats["max_depth"] = max(stats["max_depth"], depth + 1 + s[3])
                try:
                    inside = fn(0)
                except (Boom, Found):
                    if isinstance(__import__("sys").exc_info()[1], Boom):
                        stats["exception_exits"] += 1
                        after = R.read() & CONTROL
                        if after != before:
                            fail("exit-not-restored/exception/decorated", "after exception out of a decorated function control bits %#06x, were %#06x" % (after, before))
                    raise
                except AssertionError as e:
                    fail("enter-raises/%s" % ("decorated-recursive" if s[3] > 0 else "decorated"), "calling a context-decorated function (recursion depth %d) raised AssertionError %r" % (s[3], e))
                want = apply_args(before, spec)
                if inside != want:
                    fail("enter-changes-unrequested-bits/decorated", "decorated function body saw control bits %#06x, expected %#06x" % (inside, want))
                after = R.read() & CONTROL
                if after != before:
                    fail("exit-not-restored/normal/decorated", "after decorated call control bits %#06x, were %#06x" % (after, before))
            elif k == "probe":
                word = R.read() & CONTROL
                bad = probes(word)
                if bad:
                    fail("probe-mismatch", "arithmetic disagrees with MXCSR %#06x at depth %d: %s" % (word, depth, "; ".join(bad)))
            elif k == "raise":
                raise Boom()
            elif k == "try":
                try:
                    run_block(s[1], depth, active)
                except Boom:
                    pass

    try:
        try:
            run_block(program, 0, [])
        except Boom:
            pass
        final = R.read() & CONTROL
        if final != initial & CONTROL:
            found.append(("final-state-differs", "after the whole history control bits are %#06x, initially %#06x" % (final, initial & CONTROL)))
        else:
            bad = probes(final)
            if bad and not probes_baseline_bad(initial):
                found.append(("probe-mismatch/after-exit", "; ".join(bad)))
    except Found as e:
        found.append((e.cls, e.what))
    finally:
        R.write(initial)  # a leak must not poison later cases
    return found, stats


def probes_baseline_bad(initial):
    return bool(probes(initial & CONTROL))


# ---------------------------------------------------------------- strategy

SPEC = st.tuples(st.sampled_from([None, None, True, False]), st.sampled_from([None, None, True, False]), st.sampled_from([None, None, "nearest", "down", "up", "towardszero"]))


def blocks(depth):
    leaf = st.one_of(st.just(("probe",)), st.just(("probe",)), st.just(("raise",)), st.tuples(st.just("create"), SPEC))
    if depth <= 0:
        return st.lists(leaf, max_size=3)
    inner = st.deferred(lambda: blocks(depth - 1))
    node = st.one_of(
        leaf,
        st.tuples(st.just("with"), SPEC, inner),
        st.tuples(st.just("with"), SPEC, inner),
        st.tuples(st.just("with_pre"), st.integers(0, 7), inner),
        st.tuples(st.just("decorated"), SPEC, inner, st.sampled_from([0, 0, 1, 2])),
        st.tuples(st.just("try"), inner),
    )
    return st.lists(node, max_size=4)


def program():
    return st.tuples(st.lists(st.tuples(st.just("create"), SPEC), max_size=3), blocks(4)).map(lambda t: list(t[0]) + list(t[1]))


def tolist(p):
    return [list(map(lambda x: tolist(x) if isinstance(x, (list, tuple)) and x and isinstance(x[0], (list, tuple, str)) and not isinstance(x, str) else x, s)) if isinstance(s, (list, tuple)) else s for s in p]


def from_json(p):
    out = []
    for s in p:
        k = s[0]
        if k in ("with", "decorated"):
            t = (k, tuple(s[1]), from_json(s[2])) + ((s[3],) if k == "decorated" else ())
        elif k == "with_pre":
            t = (k, s[1], from_json(s[2]))
        elif k == "create":
            t = (k, tuple(s[1]))
        elif k == "try":
            t = (k, from_json(s[1]))
        else:
            t = (k,)
        out.append(t)
    return out


def replay(case):
    found, _ = execute(from_json(case["program"]))
    return found


def _shard(task):
    from harness.runner import Ctx

    seed, shard, n, known = task
    sub = Ctx("C18", "quick", seed * 64 + shard, known)

    def body(prog, part):
        found, stats = execute(prog)
        part.count(1, "depth%d" % min(stats["max_depth"], 6))
        if stats["precreated_entries"]:
            part.label("has-pre-created-entry")
        if stats["reentries"]:
            part.label("has-re-entry")
        if stats["exception_exits"]:
            part.label("has-exception-exit")
        if stats["max_depth"] >= 2 and stats["exception_exits"] >= 1:
            part.nontrivial(repr(prog))
        if len(part.samples) < 1 and stats["max_depth"] >= 2:
            part.sample({"program": tolist(prog), "stats": stats})
        return found

    hyp.drive(sub, program(), body, n, stream=shard, encode=lambda p: {"program": tolist(p)})
    p = Partial()
    p.merge(sub)
    return p


def run(ctx):
    from functional_algorithms import fpu

    if not fpu.MXCSRRegister.is_available():
        raise RuntimeError("MXCSR not available on this platform")
    ctx.rule = (
        "Hypothesis-generated programs of nested with-blocks over fpu.context(FZ,DAZ,RN in all combinations incl. None), contexts created "
        "earlier (at top level or inside other contexts) and entered later, re-entry of a live context object, context-decorated "
        "functions with recursion depth 0..2, arithmetic probes, and exceptions raised at any depth and caught at a generated outer "
        "level; executed with real with-statements; MXCSR read through the harness's own stub. Invariants: on enter only requested "
        "control bits change; after each exit (normal or exceptional) the control bits equal those on entry; final == initial; float32 "
        "probes agree with the register. Non-trivial = nesting depth >= 2 with at least one exceptional exit; distinct by program."
    )
    ctx.assumptions = [
        "control bits = MXCSR bits 6..15; sticky status flags (bits 0..5) are not compared (they change with ordinary arithmetic)",
        "single thread, x86-64",
        "numpy float32 scalar arithmetic executes SSE instructions governed by MXCSR",
    ]
    n = 1500 if ctx.quick else 20000
    ctx.pmap(_shard, [(ctx.seed, s, n, ctx.known) for s in range(16)])
