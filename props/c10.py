"""C10 — error-free transformations are exact.

Functions under test are evaluated vectorised (NumpyContext / numpy-target code of a traced graph / scalar utils),
the oracle is exact rational arithmetic on the bit patterns (harness/flt.py).
"""

import warnings
from fractions import Fraction

import numpy as np

from harness import flt
from harness.runner import Partial

warnings.filterwarnings("ignore")
np.seterr(all="ignore")


def sigbits(q):
    """Number of significant bits of a dyadic rational."""
    if q == 0:
        return 0
    n = abs(q.numerator)
    return n.bit_length() - ((n & -n).bit_length() - 1)


# ----------------------------------------------------------------- subjects

_TRACED = {}


def traced(name, fb):
    """numpy-target function of the copies inlined in algorithms.py (what is shipped inside complex log/log1p)."""
    key = (name, fb)
    if key in _TRACED:
        return _TRACED[key]
    import functional_algorithms as fa
    from functional_algorithms import algorithms as A

    dt = flt.FMT[fb].ftype
    ctx = fa.Context(paths=[fa.algorithms])
    if name == "add_2sum":

        def f(ctx, x: dt, y: dt):
            return A.add_2sum(x, y, fast=False)

    elif name == "add_fast2sum":

        def f(ctx, x: dt, y: dt):
            return A.add_2sum(x, y, fast=True)

    elif name == "sum_2sum2":

        def f(ctx, x: dt, y: dt):
            return A.sum_2sum([x, y], fast=False)

    elif name == "split":

        def f(ctx, x: dt):
            largest = ctx.constant("largest", x)
            C = A.get_veltkamp_splitter_constant(ctx, largest)
            return A.split_veltkamp(ctx, C, x)

    elif name == "square":

        def f(ctx, x: dt):
            largest = ctx.constant("largest", x)
            C = A.get_veltkamp_splitter_constant(ctx, largest)
            xh, xl = A.split_veltkamp(ctx, C, x)
            return A.square_dekker(ctx, x, xh, xl)

    g = ctx.trace(f, *([dt] * (2 if name in ("add_2sum", "add_fast2sum", "sum_2sum2") else 1)))
    g = g.rewrite(fa.targets.numpy, fa.rewrite)
    fn = fa.targets.numpy.as_function(g)
    _TRACED[key] = fn
    return fn


def _loop(fn, *arrs):
    outs = [fn(*vals) for vals in zip(*arrs)]
    return tuple(np.array([o[i] for o in outs], dtype=arrs[0].dtype) for i in range(len(outs[0])))


def subjects():
    """name -> (kind, opts, callable(fb, x[, y]) -> tuple of arrays, scalar_only)"""
    from functional_algorithms import floating_point_algorithms as fpa, apmath, utils

    def npctx(fb):
        return utils.NumpyContext(flt.FMT[fb].ftype)

    S = {}
    for fast in (False, True):
        for fix in (False, True):
            S["fpa.add_2sum[fast=%s,fix_overflow=%s]" % (fast, fix)] = (
                "sum",
                dict(fast=fast, fix=fix),
                lambda fb, x, y, fast=fast, fix=fix: fpa.add_2sum(npctx(fb), x, y, fast=fast, fix_overflow=fix),
                False,
            )
    for fix in (False, True):
        S["apmath.two_sum[fix_overflow=%s]" % fix] = ("sum", dict(fast=False, fix=fix), lambda fb, x, y, fix=fix: apmath.two_sum(npctx(fb), x, y, fix_overflow=fix), False)
        S["apmath.quick_two_sum[fix_overflow=%s]" % fix] = ("sum", dict(fast=True, fix=fix), lambda fb, x, y, fix=fix: apmath.quick_two_sum(npctx(fb), x, y, fix_overflow=fix), False)
    S["utils.add_2sum"] = ("sum", dict(fast=False, fix=False), lambda fb, x, y: _loop(utils.add_2sum, x, y), True)
    S["utils.add_fast2sum"] = ("sum", dict(fast=True, fix=False), lambda fb, x, y: _loop(utils.add_fast2sum, x, y), True)
    S["utils.sum_2sum[2 terms]"] = ("sum", dict(fast=False, fix=False), lambda fb, x, y: _loop(lambda a, b: utils.sum_2sum([a, b]), x, y), True)
    S["utils.sum_fast2sum[2 terms]"] = ("sum", dict(fast=True, fix=False), lambda fb, x, y: _loop(lambda a, b: utils.sum_fast2sum([a, b]), x, y), True)
    S["utils.double_2sum"] = ("double", dict(fast=False, fix=False), lambda fb, x, y: _loop(utils.double_2sum, x), True)
    S["utils.double_fast2sum"] = ("double", dict(fast=True, fix=False), lambda fb, x, y: _loop(utils.double_fast2sum, x), True)
    S["algorithms.add_2sum[traced]"] = ("sum", dict(fast=False, fix=False), lambda fb, x, y: tuple(traced("add_2sum", fb)(x, y)), False)
    S["algorithms.add_2sum[fast,traced]"] = ("sum", dict(fast=True, fix=False), lambda fb, x, y: tuple(traced("add_fast2sum", fb)(x, y)), False)
    S["algorithms.sum_2sum[2 terms,traced]"] = ("sum", dict(fast=False, fix=False), lambda fb, x, y: tuple(traced("sum_2sum2", fb)(x, y)), False)

    def doc_s(fb):
        return (flt.FMT[fb].p + 1) // 2

    for scale in (False, True):
        S["fpa.split_veltkamp[C=default,scale=%s]" % scale] = ("split", dict(scale=scale, s="default"), lambda fb, x, y, scale=scale: fpa.split_veltkamp(npctx(fb), x, scale=scale), False)
        S["fpa.split_veltkamp[C=2^ceil(p/2)+1,scale=%s]" % scale] = (
            "split",
            dict(scale=scale, s="doc"),
            lambda fb, x, y, scale=scale: fpa.split_veltkamp(npctx(fb), x, C=flt.FMT[fb].ftype(2 ** doc_s(fb) + 1), scale=scale),
            False,
        )
    for ds in (-2, 2):
        S["fpa.split_veltkamp[C=2^(ceil(p/2)%+d)+1,scale=False]" % ds] = (
            "split",
            dict(scale=False, s=ds),
            lambda fb, x, y, ds=ds: fpa.split_veltkamp(npctx(fb), x, C=flt.FMT[fb].ftype(2 ** (doc_s(fb) + ds) + 1), scale=False),
            False,
        )
    S["apmath.split"] = ("split", dict(scale=True, s="default"), lambda fb, x, y: apmath.split(npctx(fb), x), False)
    S["utils.split_veltkamp[s=default]"] = ("split", dict(scale=False, s="doc"), lambda fb, x, y: _loop(utils.split_veltkamp, x), True)
    for ds in (-2, 1):
        S["utils.split_veltkamp[s=ceil(p/2)%+d]" % ds] = ("split", dict(scale=False, s=ds), lambda fb, x, y, ds=ds: _loop(lambda a: utils.split_veltkamp(a, doc_s(fb) + ds), x), True)
    S["algorithms.split_veltkamp[traced]"] = ("split", dict(scale=False, s="doc"), lambda fb, x, y: tuple(traced("split", fb)(x)), False)
    for scale in (True, False):
        for fix in (False, True):
            S["fpa.mul_dekker[scale=%s,fix_overflow=%s]" % (scale, fix)] = (
                "prod",
                dict(scale=scale, fix=fix),
                lambda fb, x, y, scale=scale, fix=fix: fpa.mul_dekker(npctx(fb), x, y, scale=scale, fix_overflow=fix),
                False,
            )
            S["apmath.two_prod[scale=%s,fix_overflow=%s]" % (scale, fix)] = (
                "prod",
                dict(scale=scale, fix=fix),
                lambda fb, x, y, scale=scale, fix=fix: apmath.two_prod(npctx(fb), x, y, scale=scale, fix_overflow=fix),
                False,
            )
    S["utils.multiply_dekker"] = ("prod", dict(scale=False, fix=False), lambda fb, x, y: _loop(utils.multiply_dekker, x, y), True)
    S["utils.square_dekker"] = ("square", dict(scale=False, fix=False), lambda fb, x, y: _loop(utils.square_dekker, x), True)
    S["algorithms.square_dekker[traced]"] = ("square", dict(scale=False, fix=False), lambda fb, x, y: tuple(traced("square", fb)(x)), False)
    return S


_SUBJ = None


def subj():
    global _SUBJ
    if _SUBJ is None:
        _SUBJ = subjects()
    return _SUBJ


# ----------------------------------------------------------------- oracle (one element)


def judge(name, fb, xb, yb, outs):
    """outs: tuple of bit patterns returned by the subject for inputs xb, yb. Returns (status, violations)
    status in {'in-domain', 'fallback-zone', 'out-of-domain'}."""
    kind, opts, _, _ = subj()[name]
    f = flt.FMT[fb]
    X = flt.bits2frac(xb, f)
    Y = flt.bits2frac(yb, f)
    x, y = flt.bits_scalar(xb, f), flt.bits_scalar(yb, f)
    fin = flt.is_finite_bits

    def val(b):
        return flt.bits2frac(b, f) if fin(b, f) else None

    if kind in ("sum", "double"):
        if kind == "double":
            Y, y, yb = X, x, xb
        s = x + y
        z = s - x
        if not np.isfinite(s):
            return "out-of-domain", []
        if opts["fast"] and abs(X) < abs(Y):
            return "out-of-domain", []
        zfin = np.isfinite(z) and (opts["fast"] or np.isfinite(s - y))
        sb, tb = outs
        E = X + Y
        want_s = flt.RN(E, f)
        bad = []
        if not fin(sb, f) or val(sb) != flt.bits2frac(want_s, f):
            bad.append((name + "/s-not-RN", "%s(%r, %r): s=%r, RN(x+y)=%r" % (name, x, y, flt.bits_scalar(sb, f), flt.bits_scalar(want_s, f))))
            return "in-domain", bad
        if not zfin:
            if opts["fix"]:
                # documented fallback on intermediate overflow: t = 0
                if fin(tb, f) and (val(tb) == 0 or val(sb) + val(tb) == E):
                    return "fallback-zone", []
                return "fallback-zone", [(name + "/fix_overflow-fallback", "%s(%r, %r): t=%r is neither 0 nor exact" % (name, x, y, flt.bits_scalar(tb, f)))]
            return "out-of-domain", []
        if not fin(tb, f) or val(sb) + val(tb) != E:
            bad.append((name + "/s+t-not-exact", "%s(%r, %r) = (%r, %r): s+t != x+y" % (name, x, y, flt.bits_scalar(sb, f), flt.bits_scalar(tb, f))))
        return "in-domain", bad
    if kind == "split":
        p = f.p
        sdoc = (p + 1) // 2
        s_ = sdoc if opts["s"] in ("default", "doc") else sdoc + opts["s"]
        C = Fraction(2) ** s_ + 1  # documented splitter constant 2^s + 1 (also for the default)
        if not opts["scale"] and abs(X) * C > f.largest:
            return "out-of-domain", []
        hb, lb = outs
        if not (fin(hb, f) and fin(lb, f)):
            return "in-domain", [(name + "/nonfinite", "%s(%r) = (%r, %r)" % (name, x, flt.bits_scalar(hb, f), flt.bits_scalar(lb, f)))]
        H, L = val(hb), val(lb)
        bad = []
        big = "huge" if abs(X) * (Fraction(2) ** s_ + 1) > f.largest else ("subnormal" if flt.is_subnormal_bits(xb, f) else "normal")
        if H + L != X:
            bad.append((name + "/sum-not-exact/" + big, "%s(%r) = (%r, %r): xh+xl != x" % (name, x, flt.bits_scalar(hb, f), flt.bits_scalar(lb, f))))
        if opts["s"] in ("default", "doc"):
            hmax = lmax = sdoc  # "both halves fit in half the significand" (ceil(p/2) bits)
        else:
            hmax, lmax = p - s_, s_
        if sigbits(H) > hmax or sigbits(L) > lmax:
            bad.append(
                (
                    name + "/halves-too-wide/" + big,
                    "%s(%r) = (%r, %r): significant bits (%d, %d) exceed (%d, %d)" % (name, x, flt.bits_scalar(hb, f), flt.bits_scalar(lb, f), sigbits(H), sigbits(L), hmax, lmax),
                )
            )
        return "in-domain", bad
    if kind in ("prod", "square"):
        if kind == "square":
            Y, y, yb = X, x, xb
        P = X * Y
        if abs(P) >= f.overflow_threshold:
            return "out-of-domain", []
        want_h = flt.RN(P, f)
        Hq = flt.bits2frac(want_h, f)
        err = P - Hq
        representable = flt.is_representable(err, f)
        sdoc = (f.p + 1) // 2
        C = Fraction(2) ** sdoc + 1
        safe = abs(P) <= f.largest / 4 and (opts["scale"] or (abs(X) * C * 2 <= f.largest and abs(Y) * C * 2 <= f.largest))
        hb, lb = outs
        if not safe:
            if opts["fix"] and opts["scale"]:
                # any finite product: exact pair, or the documented fallback (xyh = x*y, xyl = 0)
                ok = fin(hb, f) and val(hb) == Hq and fin(lb, f) and (val(lb) == 0 or (representable and val(hb) + val(lb) == P))
                if not ok:
                    return "fallback-zone", [(name + "/fix_overflow-fallback", "%s(%r, %r) = (%r, %r): neither exact nor (RN(xy), 0)" % (name, x, y, flt.bits_scalar(hb, f), flt.bits_scalar(lb, f)))]
                return "fallback-zone", []
            return "out-of-domain", []
        if not representable:
            return "out-of-domain", []
        bad = []
        if not fin(hb, f) or val(hb) != Hq:
            bad.append((name + "/h-not-RN", "%s(%r, %r): h=%r, RN(xy)=%r" % (name, x, y, flt.bits_scalar(hb, f), flt.bits_scalar(want_h, f))))
        elif not fin(lb, f) or val(hb) + val(lb) != P:
            bad.append((name + "/h+l-not-exact", "%s(%r, %r) = (%r, %r): h+l != x*y" % (name, x, y, flt.bits_scalar(hb, f), flt.bits_scalar(lb, f))))
        return "in-domain", bad
    raise ValueError(kind)



def _np_sigbits16(v64):
    """significant bits of float16 values given as float64 (vectorised)."""
    n = np.abs(v64) * float(1 << 24)
    a = n.astype(np.int64)
    nz = a != 0
    a1 = np.where(nz, a, 1)
    bl = np.floor(np.log2(a1.astype(np.float64))).astype(np.int64) + 1
    tz = np.log2((a1 & -a1).astype(np.float64)).astype(np.int64)
    return np.where(nz, bl - tz, 0)


def judge_vec16(name, xb, yb, outs):
    """Vectorised float16 oracle: sums and products of float16 values are exact in float64.
    Returns (status array: 0 in-domain, 1 fallback-zone, 2 out-of-domain; ok array; nontrivial array)."""
    kind, opts, _, _ = subj()[name]
    f = flt.F16
    x = xb.astype(np.uint16).view(np.float16)
    y = yb.astype(np.uint16).view(np.float16)
    o = [t.astype(np.uint16).view(np.float16) for t in outs]
    o64 = [t.astype(np.float64) for t in o]
    fin = [np.isfinite(t) for t in o]
    x64, y64 = x.astype(np.float64), y.astype(np.float64)
    n = len(x)
    status = np.zeros(n, dtype=np.int8)
    LARGEST = float(f.largest)
    if kind in ("sum", "double"):
        if kind == "double":
            y, y64 = x, x64
        s = x + y
        z = s - x
        w = s - y
        E = x64 + y64
        dom = np.isfinite(s)
        if opts["fast"]:
            dom &= np.abs(x64) >= np.abs(y64)
        zfin = np.isfinite(z) & (np.isfinite(w) | bool(opts["fast"]))
        want_s = E.astype(np.float16).astype(np.float64)
        s_ok = fin[0] & (o64[0] == want_s)
        exact = fin[1] & fin[0] & (np.where(fin[0], o64[0], 0) + np.where(fin[1], o64[1], 0) == E)
        ok = s_ok & exact
        if opts["fix"]:
            fb_ok = s_ok & fin[1] & ((o64[1] == 0) | exact)
            ok = np.where(zfin, ok, fb_ok)
            status = np.where(dom, np.where(zfin, 0, 1), 2)
        else:
            status = np.where(dom & zfin, 0, 2)
    elif kind == "split":
        sdoc = (f.p + 1) // 2
        s_ = sdoc if opts["s"] in ("default", "doc") else sdoc + opts["s"]
        C = float(2**s_ + 1)
        dom = np.ones(n, dtype=bool) if opts["scale"] else (np.abs(x64) * C <= LARGEST)
        hmax, lmax = (sdoc, sdoc) if opts["s"] in ("default", "doc") else (f.p - s_, s_)
        both = fin[0] & fin[1]
        H, L = np.where(both, o64[0], 0), np.where(both, o64[1], 0)
        ok = both & (H + L == x64) & (_np_sigbits16(H) <= hmax) & (_np_sigbits16(L) <= lmax)
        status = np.where(dom, 0, 2)
    else:
        if kind == "square":
            y64 = x64
        P = x64 * y64
        want_h = P.astype(np.float16).astype(np.float64)
        over = ~np.isfinite(want_h)
        wh = np.where(over, 0, want_h)
        err = P - wh
        rep = err.astype(np.float16).astype(np.float64) == err
        sdoc = (f.p + 1) // 2
        C = float(2**sdoc + 1)
        safe = np.abs(P) <= LARGEST / 4
        if not opts["scale"]:
            safe &= (np.abs(x64) * C * 2 <= LARGEST) & (np.abs(y64) * C * 2 <= LARGEST)
        h_ok = fin[0] & (o64[0] == wh)
        exact = h_ok & fin[1] & rep & (np.where(fin[0], o64[0], 0) + np.where(fin[1], o64[1], 0) == P)
        if opts["fix"] and opts["scale"]:
            fb_ok = h_ok & fin[1] & ((o64[1] == 0) | exact)
            status = np.where(over, 2, np.where(safe, np.where(rep, 0, 2), 1))
            ok = np.where(status == 1, fb_ok, exact)
        else:
            status = np.where(over | ~safe | ~rep, 2, 0)
            ok = exact
    ok = ok | (status == 2)
    nontriv = (status == 0) & (np.abs(o64[1]) != 0) if len(o64) > 1 else (status == 0)
    return status, ok, nontriv


def run_subject(name, fb, xbits, ybits):
    f = flt.FMT[fb]
    x = np.asarray(xbits, dtype=np.uint64).astype(f.utype).view(f.ftype)
    y = np.asarray(ybits, dtype=np.uint64).astype(f.utype).view(f.ftype)
    outs = subj()[name][2](fb, x, y)
    return [flt.np_bits(np.asarray(o, dtype=f.ftype)).astype(np.uint64) for o in outs]


def replay(case):
    outs = run_subject(case["subject"], case["fmt"], [case["x"]], [case["y"]])
    st, bad = judge(case["subject"], case["fmt"], case["x"], case["y"], tuple(int(o[0]) for o in outs))
    return bad


# ----------------------------------------------------------------- generators


def shaped_mantissa(rng, f, n):
    k = rng.integers(0, 7, size=n)
    r = rng.integers(0, 1 << f.mbits, size=n, dtype=np.uint64)
    lowk = rng.integers(1, f.mbits, size=n)
    lo = r & ((np.uint64(1) << lowk.astype(np.uint64)) - np.uint64(1))  # only low bits set
    hi = r & ~((np.uint64(1) << lowk.astype(np.uint64)) - np.uint64(1))  # only high bits set
    full = np.uint64(f.man_mask)
    return np.select([k == 0, k == 1, (k == 2) | (k == 5), k == 3, k == 4], [np.uint64(0) * r, full + 0 * r, lo, hi, (full - lo)], r).astype(np.uint64)


def gen_pairs(rng, f, n, kind):
    """Structured operand pairs as bit patterns (finite)."""
    emax_field = (1 << f.ebits) - 2
    ex = rng.integers(0, emax_field + 1, size=n)
    top = rng.random(n) < 0.15
    ex = np.where(top, rng.integers(emax_field - 3, emax_field + 1, size=n), ex)
    bot = rng.random(n) < 0.15
    ex = np.where(bot, rng.integers(0, f.p + 3, size=n), ex)
    mx = shaped_mantissa(rng, f, n)
    my = shaped_mantissa(rng, f, n)
    if kind == "sum":
        gap = rng.integers(0, f.p + 3, size=n)
        far = rng.random(n) < 0.1
        gap = np.where(far, rng.integers(0, emax_field + 1, size=n), gap)
        sgn = rng.choice([-1, 1], size=n)
        ey = np.clip(ex - sgn * gap, 0, emax_field)
    else:
        # products: exponents such that the product lands anywhere incl. near under/overflow
        tgt = rng.integers(-f.p - 2, 2 * f.emax + 2 - 0, size=n) + 2 * f.emin  # exponent of the product
        near = rng.random(n) < 0.3
        tgt = np.where(near, rng.choice([f.emin - f.p, f.emin - 2, f.emin + f.p, f.emin + 2 * f.p + 2, f.emax - 3, f.emax - 1, f.emax, 0], size=n) + rng.integers(-2, 3, size=n), tgt)
        ey = np.clip(tgt - (ex - f.bias) + f.bias, 0, emax_field)
        # short mantissas whose product has p or p+1 bits: exact ties of RN(xy)
        short = rng.random(n) < 0.3
        k = rng.integers(2, f.p - 1, size=n)
        ax = (rng.integers(0, 1 << 62, size=n, dtype=np.uint64) | np.uint64(1)) & ((np.uint64(1) << k.astype(np.uint64)) - np.uint64(1))
        kb = (f.p + 1 - k) + rng.integers(-1, 2, size=n)
        kb = np.clip(kb, 1, f.p)
        ay = (rng.integers(0, 1 << 62, size=n, dtype=np.uint64) | np.uint64(1)) & ((np.uint64(1) << kb.astype(np.uint64)) - np.uint64(1))

        def place(a):
            # put the odd integer a (< 2^p) as the top bits of the significand
            a = a.astype(np.uint64) | np.uint64(1)
            bl = np.floor(np.log2(a.astype(np.float64))).astype(np.uint64) + np.uint64(1)
            sh = np.uint64(f.p) - bl
            return (a << sh) & np.uint64(f.man_mask)

        mx = np.where(short, place(ax), mx)
        my = np.where(short, place(ay), my)
        # both operands just above a power of two (1 + k*2^-(p-1), k < 2^(ceil(p/2)+1)): the shape for which a
        # splitter yields its widest high parts
        sm = rng.random(n) < 0.15
        kk = np.uint64(1) << np.uint64((f.p + 1) // 2 + 1)
        mx = np.where(sm, rng.integers(0, 1 << 62, size=n, dtype=np.uint64) % kk, mx)
        my = np.where(sm, rng.integers(0, 1 << 62, size=n, dtype=np.uint64) % kk, my)
    sx = rng.integers(0, 2, size=n).astype(np.uint64) << np.uint64(f.bits - 1)
    sy = rng.integers(0, 2, size=n).astype(np.uint64) << np.uint64(f.bits - 1)
    xb = sx | (ex.astype(np.uint64) << np.uint64(f.mbits)) | mx
    yb = sy | (ey.astype(np.uint64) << np.uint64(f.mbits)) | my
    if kind == "sum":
        # special relations: y = -x, y = x, exact ties y = +-ulp(x)/2, ties +- one unit
        sel = rng.integers(0, 12, size=n)
        yb = np.where(sel == 0, xb ^ np.uint64(f.sign_mask), yb)
        yb = np.where(sel == 1, xb, yb)
        half_ulp_e = ex.astype(np.int64) - f.p  # exponent field of ulp(x)/2 for normal x
        okh = half_ulp_e >= 1
        tie = (np.where(okh, half_ulp_e, 1).astype(np.uint64) << np.uint64(f.mbits)) | sy
        yb = np.where((sel == 2) & okh, tie, yb)
        yb = np.where((sel == 3) & okh, tie + np.uint64(1), yb)
        yb = np.where((sel == 4) & okh & (tie > 1), tie - np.uint64(1), yb)
    return xb, yb


def f16_structured_y(f):
    sp = flt.np_bits(flt.special_values(f, neighbours=1, infinities=False)).astype(np.uint64)
    ex = []
    for e in range(0, 31):
        for m in (0, 1, 0x3FF, 0x200, 0x155, 0x2AA):
            ex.append((e << 10) | m)
    ex = np.array(ex, dtype=np.uint64)
    allb = np.unique(np.concatenate([sp & np.uint64(0x7FFF), ex]))
    return np.concatenate([allb, allb | np.uint64(0x8000)])


def _shard(task):
    fb, names, seedtuple, n, mode = task
    f = flt.FMT[fb]
    rng = np.random.Generator(np.random.PCG64(np.random.SeedSequence(list(seedtuple))))
    p = Partial()
    for name in names:
        kind, opts, fn, scalar_only = subj()[name]
        gk = "sum" if kind in ("sum", "double") else "prod"
        if mode == "gen":
            m = n // 8 if scalar_only else n
            xb, yb = gen_pairs(rng, f, max(m, 16), gk)
            if kind == "split":
                # whole finite range incl. huge values beyond largest/C and subnormals
                extra = flt.np_bits(flt.random_bits_floats(rng, len(xb) // 2, f, finite=True)).astype(np.uint64)
                xb = np.concatenate([xb, extra, flt.np_bits(flt.special_values(f, infinities=False)).astype(np.uint64)])
                yb = np.zeros_like(xb)
        else:
            # float16 grid: a slice of all finite x against structured y
            allx = flt.all_bits(f, finite=True).astype(np.uint64)
            xs = allx[n::mode]  # n = offset, mode = stride
            if kind in ("split", "square", "double"):
                xb, yb = xs, np.zeros_like(xs)
            else:
                ys = f16_structured_y(f)
                if scalar_only:
                    xs = xs[::8]
                xb = np.repeat(xs, len(ys))
                yb = np.tile(ys, len(xs))
        outs = run_subject(name, fb, xb, yb)
        cnt = {"in-domain": 0, "fallback-zone": 0, "out-of-domain": 0}
        if fb == 16 and mode != "gen":
            status, ok, nontriv = judge_vec16(name, xb, yb, outs)
            cnt = {"in-domain": int((status == 0).sum()), "fallback-zone": int((status == 1).sum()), "out-of-domain": int((status == 2).sum())}
            keys = (xb[nontriv].astype(np.uint64) << np.uint64(16)) | yb[nontriv].astype(np.uint64)
            hname = int.from_bytes(name.encode()[:3] + bytes([len(name) % 251]), "little")
            p.nontrivial_many(keys + (np.uint64(hname) << np.uint64(32)))
            idx = list(np.nonzero(~ok)[0][:200])
            # cross-validation of the vectorised oracle against the rational one on a deterministic subsample
            sub = list(range(0, len(xb), max(1, len(xb) // 64)))
            SN = {"in-domain": 0, "fallback-zone": 1, "out-of-domain": 2}
            for i in idx + sub:
                o = tuple(int(t[i]) for t in outs)
                st, bad = judge(name, fb, int(xb[i]), int(yb[i]), o)
                if SN[st] != int(status[i]) or (not bad) != bool(ok[i]):
                    raise RuntimeError("oracle mismatch (harness bug): %s x=%d y=%d vec=(%d,%s) exact=(%s,%r)" % (name, xb[i], yb[i], status[i], ok[i], st, bad))
                for cls, what in bad:
                    p.violation(cls, what, {"subject": name, "fmt": fb, "x": int(xb[i]), "y": int(yb[i])})
        else:
            for i in range(len(xb)):
                o = tuple(int(t[i]) for t in outs)
                st, bad = judge(name, fb, int(xb[i]), int(yb[i]), o)
                cnt[st] += 1
                for cls, what in bad:
                    p.violation(cls, what, {"subject": name, "fmt": fb, "x": int(xb[i]), "y": int(yb[i])})
                if st == "in-domain":
                    low = o[1]
                    if (low & ~f.sign_mask) != 0:
                        p.nontrivial((name, fb, int(xb[i]), int(yb[i])))
        for k, v in cnt.items():
            p.count(v, "%s/f%d/%s" % (name, fb, k))
        if len(p.samples) < 2 and len(xb):
            i = len(xb) // 2
            p.sample({"subject": name, "fmt": fb, "x": flt.bits_scalar(int(xb[i]), f), "y": flt.bits_scalar(int(yb[i]), f), "out": [flt.bits_scalar(int(t[i]), f) for t in outs]})
    return p


def run(ctx):
    q = ctx.quick
    names = sorted(subj())
    ctx.rule = (
        "every variant of 2Sum/Fast2Sum/Veltkamp split/Dekker product in floating_point_algorithms, apmath, utils and the copies inlined "
        "in algorithms.py (traced, numpy target); float16: all finite x (strided in quick) x structured y grid (specials, every binade x 6 "
        "mantissa shapes, both signs), all finite x for unary ones; float32/float64: generated pairs with exponent gap 0..p+2 or far, "
        "mantissa shapes (zero/all-ones/low-bits/high-bits/random), y=+-x, exact rounding ties (y = +-ulp(x)/2 and +-1 unit), short odd "
        "mantissas whose product has p or p+1 bits (ties of RN(xy)), products placed at the under/overflow edges; oracle in exact "
        "rationals; domain computed exactly from the documented conditions. Non-trivial = in-domain case with a non-zero error term; "
        "distinct by (subject, format, operands)."
    )
    ctx.assumptions = [
        "harness/flt.py exact values and RN",
        "numpy +,-,* on float16/32/64 scalars and arrays are IEEE round-to-nearest operations",
        "Dekker products are asserted exact only where no intermediate can overflow (|xy| <= largest/4 and, unscaled, |x|,|y| <= largest/(2C)); "
        "beyond that only the fix_overflow contract (exact or (RN(xy),0)) is asserted",
    ]
    tasks = []
    # float16 grid: x = all finite float16 (every 4th in quick, rotating with the seed), y = structured grid
    stride = 64 if q else 16
    ng = 4 if q else 8
    for off in range(16):
        o = (off * (stride // 16) + (ctx.seed % (stride // 16))) if q else off
        for g in [names[i::ng] for i in range(ng)]:
            tasks.append((16, g, (0,), o, stride))
    ctx.note("float16_x_fraction_enumerated", 16.0 / stride)
    # generated float16/32/64
    n = 1500 if q else 60000
    for fb in (16, 32, 64):
        for s, g in enumerate([names[i::16] for i in range(16)]):
            if g:
                tasks.append((fb, g, (ctx.seed, 10, fb, s), n, "gen"))
    ctx.pmap(_shard, tasks)
