"""C02 — real-line accuracy of every real algorithm (ULP bound, exhaustive in float32).

Subject: real signatures of absolute, acos, acosh, asin, asinh, square and hypot, with non-native sub-operations
expanded by the package's own definitions (harness/npvec.py), evaluated vectorised by the independent NpVec interpreter
(cross-checked against the exec'd NumPy-target function on a subsample).
Oracle: float64 numpy as a filter for float32, every borderline case (lattice distance >= 3) re-decided exactly by
the mpmath Ziv oracle (harness/mpref.py); float64 inputs always by mpmath.
"""

import warnings

import numpy as np

from harness import flt, mpref, npvec
from harness.runner import Partial

warnings.filterwarnings("ignore")
np.seterr(all="ignore")

UNARY = ["absolute", "acos", "acosh", "asin", "asinh", "square"]
REF64 = {"absolute": np.abs, "acos": np.arccos, "acosh": np.arccosh, "asin": np.arcsin, "asinh": np.arcsinh, "square": np.square}
BOUND = {32: 4, 64: 5}
TARGET = 3
ODD = {"asin", "asinh"}


def defined(fname, x):
    """where the real function is defined (x: float64 array, non-NaN)"""
    if fname in ("asin", "acos"):
        return np.abs(x) <= 1
    if fname == "acosh":
        return x >= 1
    return np.ones(len(x), dtype=bool)


def exact_ref_bits(fname, xbits, f):
    import mpmath

    xs = [mpref.to_mpf(int(b), f) for b in xbits]
    r = mpref.ziv_real(fname, xs, f)
    return r


def check_unary_block(fname, fb, bits):
    """returns Partial-like dict: counts, worst, violations, histogram"""
    f = flt.FMT[fb]
    g, ex = npvec.expanded_graph(fname, f.ftype)
    x = bits.astype(f.utype).view(f.ftype)
    res = np.asarray(npvec.run_graph(g, [x]), dtype=f.ftype)
    x64 = x.astype(np.float64)
    dom = defined(fname, x64) & ~np.isinf(x64)
    out = {"viol": [], "hist": np.zeros(8, dtype=np.int64), "n": len(bits), "nontrivial": 0, "over_target": 0, "worst": (0, None)}
    isnan = np.isnan(res)
    # NaN exactly on the undefined set (finite and infinite inputs alike)
    xinf = np.isinf(x64)
    if fname in ("asin", "acos"):
        undef = ~defined(fname, x64) | xinf
    elif fname == "acosh":
        undef = (x64 < 1)
    else:
        undef = np.zeros(len(x), dtype=bool)
    bad_nan = isnan != undef
    for i in np.nonzero(bad_nan)[0][:5]:
        out["viol"].append(("%s/f%d/nan-domain" % (fname, fb), "%s(%r) = %r: NaN %s" % (fname, x[i], res[i], "where the function is defined" if isnan[i] else "missing where the function is undefined"), [int(bits[i])]))
    # limits at infinity
    lim = {"absolute": (np.inf, np.inf), "square": (np.inf, np.inf), "asinh": (np.inf, -np.inf), "acosh": (np.inf, None)}.get(fname)
    if lim is not None:
        for sgn, want in ((1, lim[0]), (-1, lim[1])):
            m = xinf & ((x64 > 0) if sgn > 0 else (x64 < 0))
            if want is not None and m.any():
                bad = m & ~(res == want)
                for i in np.nonzero(bad)[0][:2]:
                    out["viol"].append(("%s/f%d/limit-at-infinity" % (fname, fb), "%s(%r) = %r, expected %r" % (fname, x[i], res[i], want), [int(bits[i])]))
    ok = dom & ~isnan
    if not ok.any():
        return out
    idx = np.nonzero(ok)[0]
    xr = x[idx]
    rr = res[idx]
    if fb == 32:
        ref64 = REF64[fname](xr.astype(np.float64))
        ref = ref64.astype(np.float32)
        d = np.abs(flt.np_index(rr) - flt.np_index(ref))
        # infinite result where the reference is finite (or vice versa) shows as a huge distance; zero sign handled below
        cand = np.nonzero(d >= TARGET)[0]
        for j in cand:
            rb = exact_ref_bits(fname, [int(flt.np_bits(xr[j : j + 1])[0])], f)
            d[j] = abs(flt.index(int(flt.np_bits(rr[j : j + 1])[0]), f) - flt.index(rb, f))
    else:
        d = np.zeros(len(idx), dtype=np.int64)
        xb = flt.np_bits(xr).astype(np.uint64)
        rb_ = flt.np_bits(rr).astype(np.uint64)
        for j in range(len(idx)):
            rb = exact_ref_bits(fname, [int(xb[j])], f)
            d[j] = abs(flt.index(int(rb_[j]), f) - flt.index(rb, f))
            if flt.is_inf_bits(int(rb_[j]), f) != flt.is_inf_bits(rb, f) and d[j] <= BOUND[fb]:
                pass
    out["hist"] += np.bincount(np.minimum(d, 7), minlength=8)[:8]
    out["over_target"] = int((d > TARGET).sum())
    nz = (xr != 0) & (rr != 0) & np.isfinite(rr)
    out["nontrivial"] = int(nz.sum())
    bad = np.nonzero(d > BOUND[fb])[0]
    for j in bad[:5]:
        out["viol"].append(("%s/f%d/ulp-bound" % (fname, fb), "%s(%r) = %r is %d ULP from the correctly rounded value (bound %d)" % (fname, xr[j], rr[j], int(d[j]), BOUND[fb]), [int(flt.np_bits(xr[j : j + 1])[0])]))
    if len(d):
        j = int(np.argmax(d))
        out["worst"] = (int(d[j]), float(xr[j]))
    # exact limits at zero (sign of zero for the odd functions), acos(1) = +0, acosh(1) = +0
    z = np.nonzero(xr == 0)[0]
    for j in z:
        want = {"asin": xr[j], "asinh": xr[j], "absolute": f.ftype(0), "square": f.ftype(0)}.get(fname)
        if want is not None and flt.np_bits(rr[j : j + 1])[0] != flt.np_bits(np.array([want], dtype=f.ftype))[0]:
            out["viol"].append(("%s/limit-at-zero" % (fname,), "%s(%r) = %r, expected %r" % (fname, xr[j], rr[j], want), [int(flt.np_bits(xr[j : j + 1])[0])]))
    one = np.nonzero(xr == 1)[0]
    for j in one:
        if fname in ("acos", "acosh") and flt.np_bits(rr[j : j + 1])[0] != 0:
            out["viol"].append(("%s/f%d/limit-at-one" % (fname, fb), "%s(1) = %r, expected +0" % (fname, rr[j]), [int(flt.np_bits(xr[j : j + 1])[0])]))
    return out


def _unary_task(task):
    fname, fb, kind, a, b, seedtuple = task
    f = flt.FMT[fb]
    p = Partial()
    if kind == "range":
        bits = np.arange(a, b, dtype=np.uint64)
        e = bits & np.uint64(f.exp_mask)
        m = bits & np.uint64(f.man_mask)
        bits = bits[~((e == np.uint64(f.exp_mask)) & (m != 0))]
    elif kind == "bits":
        bits = np.asarray(a, dtype=np.uint64)
        e = bits & np.uint64(f.exp_mask)
        m = bits & np.uint64(f.man_mask)
        bits = bits[~((e == np.uint64(f.exp_mask)) & (m != 0))]
    else:
        rng = np.random.Generator(np.random.PCG64(np.random.SeedSequence(list(seedtuple))))
        bits = flt.np_bits(flt.random_bits_floats(rng, a, f)).astype(np.uint64)
    CH = 1 << 20 if fb == 32 else 1 << 14
    hist = np.zeros(8, dtype=np.int64)
    over = 0
    worst = (0, None)
    nt = 0
    for s in range(0, len(bits), CH):
        o = check_unary_block(fname, fb, bits[s : s + CH])
        for cls, what, xb in o["viol"]:
            p.violation(cls, what, {"function": fname, "fmt": fb, "x": xb})
        hist += o["hist"]
        over += o["over_target"]
        nt += o["nontrivial"]
        if o["worst"][0] > worst[0]:
            worst = o["worst"]
    p.count(len(bits), "%s/f%d/%s" % (fname, fb, kind))
    if kind == "range":
        p.nontrivial_enumerated(nt)
    else:
        p.nontrivial_many(bits ^ np.uint64(hash(fname) & 0xFFFF))
    p.notes["%s_f%d_hist" % (fname, fb)] = [int(v) for v in hist]
    p.notes["%s_f%d_over_target" % (fname, fb)] = over
    p.notes["%s_f%d_worst" % (fname, fb)] = list(worst)
    p.notes["%s_f%d_n" % (fname, fb)] = int(hist.sum())
    return p


def merge_notes(ctx, parts):
    pass


def switch_points(fname, f):
    """values of the input-independent sub-expressions of the expanded graph (thresholds of the algorithm)"""
    g, ex = npvec.expanded_graph(fname, f.ftype, 2 if fname == "hypot" else 1)
    seen, consts = set(), []

    def isconst(e):
        if e.kind == "symbol":
            return False
        if e.kind == "constant":
            return True
        return all(isconst(o) for o in e.operands if npvec.is_expr(o))

    def walk(e):
        if not npvec.is_expr(e) or id(e) in seen:
            return
        seen.add(id(e))
        if e.kind not in ("symbol", "apply", "list") and isconst(e):
            consts.append(e)
            return
        for o in e.operands:
            walk(o)

    walk(g.operands[-1])
    vals = set()
    args = g.operands[1:-1]
    env = {a.operands[0]: np.ones(1, dtype=f.ftype) for a in args}
    ev = npvec.NpVec(env)
    for c in consts:
        try:
            v = ev.eval(c)
            v = float(np.asarray(v).ravel()[0])
            if np.isfinite(v) and v != 0:
                for w in (v, np.sqrt(abs(v)), v * v, v / 2, 2 * v):
                    w = f.ftype(w)
                    if np.isfinite(w) and w != 0:
                        vals.add(float(abs(w)))
        except Exception:
            pass
    vals |= {1.0, 1.5, 0.5, float(f.ftype(np.finfo(f.ftype).max)), float(np.finfo(f.ftype).smallest_normal), float(np.sqrt(np.finfo(f.ftype).max))}
    return sorted(vals)


def window_bits(points, f, halfwidth):
    out = []
    for v in points:
        i = flt.index(flt.scalar_bits(f.ftype(v)), f)
        lo, hi = max(0, i - halfwidth), min(f.largest_bits, i + halfwidth)
        a = np.arange(lo, hi + 1, dtype=np.uint64)
        out.append(a)
        out.append(a | np.uint64(f.sign_mask))
    # around zero
    a = np.arange(0, halfwidth, dtype=np.uint64)
    out += [a, a | np.uint64(f.sign_mask), np.array([f.inf_bits, f.inf_bits | f.sign_mask], dtype=np.uint64)]
    return np.unique(np.concatenate(out))


def approach_bits(points, f, n, rng):
    """indices i(v) +- floor(2^u), u uniform in [0, p+3]: every scale of distance from each threshold (1 ULP ... far) is
    hit equally often (a cancellation error typically peaks at a distance ~2^(p/2) ULP, far outside a +-64-ULP window
    and far too close for random samples)"""
    out = []
    for v in points:
        i = flt.index(flt.scalar_bits(f.ftype(v)), f)
        d = np.floor(np.exp2(rng.uniform(0, f.p + 3, size=n))).astype(np.int64) * rng.choice([-1, 1], size=n)
        j = np.clip(i + d, 0, f.largest_bits).astype(np.uint64)
        out.append(j)
        out.append(j | np.uint64(f.sign_mask))
    return np.unique(np.concatenate(out)) if out else np.zeros(0, dtype=np.uint64)


# ---------------------------------------------------------------- hypot


def _hypot_task(task):
    fb, n, seedtuple = task
    f = flt.FMT[fb]
    rng = np.random.Generator(np.random.PCG64(np.random.SeedSequence(list(seedtuple))))
    p = Partial()
    g, ex = npvec.expanded_graph("hypot", f.ftype, 2)
    ft = f.ftype
    sp = flt.special_values(f, neighbours=2)
    pts = np.array(switch_points("hypot", f), dtype=ft)
    pool = np.concatenate([sp, pts, -pts])
    X1, Y1 = np.meshgrid(pool, pool)
    xr = flt.random_bits_floats(rng, n, f)
    yr = flt.random_bits_floats(rng, n, f)
    k = rng.integers(-8, 9, size=n).astype(ft)
    eps = ft(np.finfo(ft).eps)
    y_eq = xr * (ft(1) + k * eps)
    ratio = np.sqrt(eps) * (ft(1) + rng.integers(-64, 65, size=n).astype(ft) * eps)
    y_se = (np.abs(xr) * ratio).astype(ft)
    x = np.concatenate([X1.ravel(), xr, xr, xr, xr]).astype(ft)
    y = np.concatenate([Y1.ravel(), yr, y_eq.astype(ft), y_se, np.where(rng.random(n) < 0.5, xr, -xr)]).astype(ft)
    ok = ~(np.isnan(x) | np.isnan(y))
    x, y = x[ok], y[ok]
    res = np.asarray(npvec.run_graph(g, [x, y]), dtype=ft)
    anyinf = np.isinf(x) | np.isinf(y)
    # hypot(+-inf, y) = +inf
    bad = anyinf & ~(res == np.inf)
    for i in np.nonzero(bad)[0][:3]:
        p.violation("hypot/f%d/limit-at-infinity" % fb, "hypot(%r, %r) = %r, expected +inf" % (x[i], y[i], res[i]), {"function": "hypot", "fmt": fb, "x": [int(flt.np_bits(x[i : i + 1])[0]), int(flt.np_bits(y[i : i + 1])[0])]})
    z = (x == 0) & (y == 0)
    bad = z & (flt.np_bits(res) != 0)
    for i in np.nonzero(bad)[0][:3]:
        p.violation("hypot/f%d/limit-at-zero" % fb, "hypot(%r, %r) = %r, expected +0" % (x[i], y[i], res[i]), {"function": "hypot", "fmt": fb, "x": [int(flt.np_bits(x[i : i + 1])[0]), int(flt.np_bits(y[i : i + 1])[0])]})
    bad = ~anyinf & np.isnan(res)
    for i in np.nonzero(bad)[0][:3]:
        p.violation("hypot/f%d/nan" % fb, "hypot(%r, %r) = NaN" % (x[i], y[i]), {"function": "hypot", "fmt": fb, "x": [int(flt.np_bits(x[i : i + 1])[0]), int(flt.np_bits(y[i : i + 1])[0])]})
    fin = ~anyinf & ~np.isnan(res)
    xf, yf, rf = x[fin], y[fin], res[fin]
    if fb == 32:
        ref = np.hypot(xf.astype(np.float64), yf.astype(np.float64)).astype(np.float32)
        d = np.abs(flt.np_index(rf) - flt.np_index(ref))
        cand = np.nonzero(d >= TARGET)[0]
    else:
        d = np.zeros(len(xf), dtype=np.int64)
        cand = np.arange(len(xf))[: 20000 if n <= 200000 else 200000]
        d[:] = 0
    xb, yb, rb = (flt.np_bits(a).astype(np.uint64) for a in (xf, yf, rf))
    for j in cand:
        r = mpref.ziv_real("hypot", [mpref.to_mpf(int(xb[j]), f), mpref.to_mpf(int(yb[j]), f)], f)
        d[j] = abs(flt.index(int(rb[j]), f) - flt.index(r, f))
    considered = len(xf) if fb == 32 else len(cand)
    hist = np.bincount(np.minimum(d if fb == 32 else d[cand], 7), minlength=8)[:8]
    for j in np.nonzero(d > BOUND[fb])[0][:5]:
        p.violation("hypot/f%d/ulp-bound" % fb, "hypot(%r, %r) = %r is %d ULP from the correctly rounded value (bound %d)" % (xf[j], yf[j], rf[j], int(d[j]), BOUND[fb]), {"function": "hypot", "fmt": fb, "x": [int(xb[j]), int(yb[j])]})
    p.count(considered, "hypot/f%d" % fb)
    p.nontrivial_many((xb[:considered] * np.uint64(2654435761)) ^ yb[:considered])
    p.notes["hypot_f%d_hist" % fb] = [int(v) for v in hist]
    p.notes["hypot_f%d_over_target" % fb] = int((d > TARGET).sum())
    p.notes["hypot_f%d_n" % fb] = int(considered)
    p.sample({"function": "hypot", "fmt": fb, "x": xf[len(xf) // 2], "y": yf[len(yf) // 2], "result": rf[len(rf) // 2]})
    return p


def replay(case):
    fname, fb = case["function"], case["fmt"]
    if fname == "hypot":
        f = flt.FMT[fb]
        g, ex = npvec.expanded_graph("hypot", f.ftype, 2)
        xb, yb = case["x"]
        x = np.array([xb], dtype=np.uint64).astype(f.utype).view(f.ftype)
        y = np.array([yb], dtype=np.uint64).astype(f.utype).view(f.ftype)
        res = np.asarray(npvec.run_graph(g, [x, y]), dtype=f.ftype)
        if np.isinf(x[0]) or np.isinf(y[0]):
            return [] if res[0] == np.inf else [("hypot/f%d/limit-at-infinity" % fb, "hypot(%r,%r)=%r" % (x[0], y[0], res[0]))]
        r = mpref.ziv_real("hypot", [mpref.to_mpf(int(xb), f), mpref.to_mpf(int(yb), f)], f)
        d = abs(flt.index(int(flt.np_bits(res)[0]), f) - flt.index(r, f)) if not np.isnan(res[0]) else 10**9
        return [] if d <= BOUND[fb] else [("hypot/f%d/ulp-bound" % fb, "hypot(%r,%r)=%r is %d ULP off" % (x[0], y[0], res[0], d))]
    o = check_unary_block(fname, fb, np.array(case["x"], dtype=np.uint64))
    return [(c, w) for c, w, _ in o["viol"]]


def cross_check_numpy_target(ctx):
    """NpVec must agree bit for bit with the function exec'd from the NumPy target (harness error otherwise)"""
    import functional_algorithms as fa

    rng = ctx.rng(99)
    n = 0
    for fb in (32, 64):
        f = flt.FMT[fb]
        for fname in UNARY:
            g, ex = npvec.expanded_graph(fname, f.ftype)
            fn = fa.targets.numpy.as_function(g)
            x = np.concatenate([flt.random_bits_floats(rng, 300, f), flt.special_values(f)])
            a = np.asarray(npvec.run_graph(g, [x]), dtype=f.ftype)
            b = np.array([fn(v) for v in x], dtype=f.ftype)
            if not np.array_equal(flt.np_bits(a), flt.np_bits(b)) and not np.array_equal(a, b, equal_nan=True):
                raise RuntimeError("NpVec disagrees with the NumPy-target function for %s/%s" % (fname, f.name))
            n += len(x)
    ctx.note("numpy_target_cross_checked_inputs", n)


def run(ctx):
    q = ctx.quick
    ctx.rule = (
        "float32 unary functions (absolute, acos, acosh, asin, asinh, square): thorough = every non-NaN float32 bit pattern (2^32-2^24 per "
        "function); quick = every 4099th bit pattern plus full +-65536-ULP windows around every threshold read out of the expanded graph "
        "(input-independent sub-expressions, their square roots/squares/halves, 0, 1, smallest normal, largest) and +-inf; float64: bit-uniform "
        "samples plus +-2048-ULP windows plus geometric approach sequences to every threshold (index +- 2^u, u uniform in [0, p+3]); hypot: special lattice^2, threshold pool^2, random pairs, |x|=|y|, y=x(1+-k eps), min/max ~ sqrt(eps). "
        "Oracle: float64 numpy filter, every case at lattice distance >= 3 re-decided exactly by mpmath (Ziv); float64 always mpmath. "
        "Verdicts: distance <= 4 (float32) / 5 (float64); inputs beyond the 3-ULP target < N/1e5; NaN exactly on the undefined set; exact "
        "limits at +-inf, +-0, 1. Non-trivial = finite non-zero input with finite non-zero result; distinct by (function, format, input)."
    )
    ctx.assumptions = [
        "numpy float64 elementary functions are accurate to < 2 ulp64 (used only as a filter; all decisions at distance >= 3 are made by mpmath)",
        "mpmath agrees with itself at two working precisions (Ziv)",
        "NpVec interpreter = NumPy-target semantics (cross-checked against the exec'd NumPy-target function on every run)",
    ]
    cross_check_numpy_target(ctx)
    tasks = []
    f32 = flt.F32
    for fname in UNARY:
        if q:
            stride = np.arange(ctx.seed % 4099, 1 << 32, 4099, dtype=np.uint64)
            for ch in np.array_split(stride, 4):
                tasks.append((fname, 32, "bits", ch, None, None))
            wb = window_bits(switch_points(fname, f32), f32, 65536 if fname != "square" else 4096)
            for ch in np.array_split(wb, 8):
                tasks.append((fname, 32, "bits", ch, None, None))
        else:
            for s in range(256):
                tasks.append((fname, 32, "range", s << 24, (s + 1) << 24, None))
        n64 = 4000 if q else 200000
        for s in range(4 if q else 16):
            tasks.append((fname, 64, "random", n64, None, (ctx.seed, 2, 64, s, len(fname))))
        wb = window_bits(switch_points(fname, flt.F64), flt.F64, 64 if q else 2048)
        ab = approach_bits(list(switch_points(fname, flt.F64)) + [1.0], flt.F64, 400 if q else 40000, ctx.rng(2, 64, len(fname)))
        wb = np.unique(np.concatenate([wb, ab]))
        for ch in np.array_split(wb, 4 if q else 16):
            tasks.append((fname, 64, "bits", ch, None, None))
    parts = []
    import multiprocessing

    with multiprocessing.get_context("fork").Pool(16) as pool:
        for part in pool.imap(_unary_task, tasks):
            parts.append(part)
    # merge with per-function aggregation of histograms (notes would overwrite each other)
    agg = {}
    for part in parts:
        notes = part.notes
        part.notes = {}
        ctx.merge(part)
        for k, v in notes.items():
            if k.endswith("_hist"):
                agg[k] = [a + b for a, b in zip(agg.get(k, [0] * 8), v)]
            elif k.endswith("_over_target") or k.endswith("_n"):
                agg[k] = agg.get(k, 0) + v
            elif k.endswith("_worst"):
                if k not in agg or (v[0] or 0) > agg[k][0]:
                    agg[k] = v
    # hypot
    hparts = []
    ht = [(fb, 30000 if q else 2000000, (ctx.seed, 2, 7, fb, s)) for fb in (32, 64) for s in range(2 if q else 8)]
    with multiprocessing.get_context("fork").Pool(16) as pool:
        for part in pool.imap(_hypot_task, ht):
            hparts.append(part)
    for part in hparts:
        notes = part.notes
        part.notes = {}
        ctx.merge(part)
        for k, v in notes.items():
            if k.endswith("_hist"):
                agg[k] = [a + b for a, b in zip(agg.get(k, [0] * 8), v)]
            else:
                agg[k] = agg.get(k, 0) + v
    # rate verdict: fewer than one input in 1e5 beyond the 3-ULP target
    for k in sorted(agg):
        if k.endswith("_over_target"):
            base = k[: -len("_over_target")]
            n = agg.get(base + "_n", 0)
            over = agg[k]
            if n and over * 100000 > n and over > (3 if not (not q and base.endswith("f32")) else 0):
                # sampled: require a clear excess (one-sided exact binomial tail at the claimed rate)
                import math

                lam = n * 1e-5  # Poisson approximation of Binomial(n, 1e-5), accurate for these n
                if over > 50 * max(lam, 1):
                    tail = 0.0
                else:
                    tail = max(0.0, 1 - sum(math.exp(-lam + j * math.log(lam) - math.lgamma(j + 1)) for j in range(over)))
                if not q and base.endswith("f32") and "hypot" not in base:
                    tail = 0.0  # exhaustive: the count is exact
                if tail < 1e-9:
                    ctx.violation("%s/target-rate" % base.replace("_", "/"), "%d of %d inputs exceed the 3-ULP target (claimed < 1e-5)" % (over, n), {"function": base, "over": over, "n": n})
    ctx.notes.update({k: v for k, v in agg.items()})
    if not q:
        ctx.exhaustive = True
        ctx.note("exhaustive_scope", "all non-NaN float32 inputs of the six unary functions; float64 and hypot are sampled")
    ctx.sample({"function": "asin", "fmt": 32, "histogram_of_lattice_distance_0..7+": agg.get("asin_f32_hist")})
