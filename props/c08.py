"""C08 — static types equal run-time types.

Programs over float16/32/64 and complex64/128 symbols (mixed widths included) and all constant flavours are generated,
every node is given a forced reference so that the NumPy printer materialises and (debug=1) asserts each of them; the
emitted source is exec'd and run.  Oracles: (1) no AssertionError from the emitted type assertions; (2) dtype of the
returned value == static type of the body; (3) independently of the emitted assertions, the dtype each node has under a
numpy-scalar interpreter (harness/dag.py) == Expr.get_type() of that node.
"""

import contextlib
import io
import sys
import warnings

import numpy as np

from harness import dag, flt, hyp, progs
from harness.runner import Partial

warnings.filterwarnings("ignore")
st = hyp.st


def make_function_graph(spec, force_refs=True, rewrite=False, alt=None):
    """alt: None, or the default constant type of an alternative constant context (constants are then held and folded
    in that type and cast to their static type where they are used)"""
    import functional_algorithms as fa
    from functional_algorithms.expr import make_apply

    if alt is not None:
        ctx0 = fa.Context(paths=[fa.algorithms], enable_alt=True, default_constant_type=alt)
        ctx, ex, root, syms = progs.build(spec, ctx=ctx0)
    else:
        ctx, ex, root, syms = progs.build(spec)
    if force_refs:
        for i, e in enumerate(ex):
            if e.kind not in ("symbol", "list"):
                e.reference("v%d" % i, force=True)
    args = tuple(s.reference(ref_name=s.operands[0]) for s in syms)
    name = ctx.symbol("fn").reference(ref_name="fn")
    g = make_apply(ctx, name, args, root)
    with contextlib.redirect_stdout(io.StringIO()):
        g = g.rewrite(fa.targets.numpy)
        if rewrite:
            g = g.rewrite(fa.rewrite)
    return ctx, g, ex, syms


def input_grid(typename, rng, n):
    T = dag.NP_TYPES[typename]
    if issubclass(T, np.complexfloating):
        ft = {np.complex64: np.float32, np.complex128: np.float64}[T]
        base = [ft(v) for v in (0.0, -0.0, 1.0, -1.5, 0.5, np.inf, 1e-30, 3.0)]
        out = []
        for _ in range(n):
            z = np.zeros(1, dtype=T)
            z.view(ft)[0] = base[rng.integers(0, len(base))]
            z.view(ft)[1] = base[rng.integers(0, len(base))]
            out.append(z[0])
        return out
    f = {np.float16: flt.F16, np.float32: flt.F32, np.float64: flt.F64}[T]
    sp = list(flt.special_values(f, neighbours=0))
    vals = [T(v) for v in (0.5, 1.5, -2.0, 3.0, 0.1)] + [T(v) for v in sp]
    idx = rng.integers(0, len(vals), size=n)
    return [vals[i] for i in idx]


def static_np_type(e):
    t = e.get_type()
    name = str(t)
    return dag.NP_TYPES.get(name), name


def check(case):
    import functional_algorithms as fa

    spec = case["spec"]
    info = {"nodes": 0, "runs": 0, "runtime_errors": 0}
    out = []
    if case.get("alt") is not None and any(nd[0] in ("list", "item", "named") for nd in spec["nodes"]):
        # alternative constant context: only numeric literals in scalar arithmetic are exercised (lists indexed by an
        # alt constant and named constants narrower than the alt type are outside what that context is used for)
        case = dict(case, alt=None)
    try:
        ctx, g, ex, syms = make_function_graph(spec, rewrite=case.get("rewrite", False), alt=case.get("alt"), force_refs=case.get("force_refs", True))
    except NotImplementedError:
        return [], info  # numpy target rejects the graph
    except Exception as e:
        return [("build-or-expand-raises/%s" % type(e).__name__, "preparing the graph raised %r" % (e,))], info
    body = g.operands[-1]
    try:
        with contextlib.redirect_stdout(io.StringIO()):
            src = g.tostring(fa.targets.numpy, debug=1)
    except NotImplementedError:
        return [], info
    except KeyError:
        return [], info  # a type the numpy target does not declare
    except Exception as e:
        return [("tostring-raises/%s" % type(e).__name__, "tostring(numpy, debug=1) raised %r" % (e,))], info
    ns = dict(numpy=np, warnings=warnings, sys=sys, make_complex=fa.utils.make_complex, finfo_float32=np.finfo(np.float32), finfo_float64=np.finfo(np.float64))
    try:
        exec(src, ns)
    except Exception:
        return [], info  # emitted source does not load: C05's subject
    fn = ns["fn"]
    rng = np.random.Generator(np.random.PCG64(case.get("vseed", 0)))
    grids = [input_grid(t, rng, 12) for _, t in spec["syms"]]
    want_T, want_name = static_np_type(body)
    # all reachable nodes of the printed graph for oracle (3)
    nodes = []
    seen = set()

    def walk(e):
        if not dag.is_expr(e) or id(e) in seen:
            return
        seen.add(id(e))
        for o in e.operands:
            walk(o)
        nodes.append(e)

    walk(body)
    info["nodes"] = len(nodes)
    for k in range(12):
        args = [grid[k] for grid in grids]
        env = {name: v for (name, _), v in zip(spec["syms"], args)}
        info["runs"] += 1
        # (1)+(2) emitted code
        try:
            with np.errstate(all="ignore"), contextlib.redirect_stdout(io.StringIO()):
                res = fn(*args)
            if want_T is not None and not isinstance(res, list):
                got = np.asarray(res).dtype.type
                if got is not want_T:
                    out.append(("result-dtype/%s" % body.kind, "fn(%s) returned dtype %s, static type of the body is %s" % (", ".join(map(repr, args)), got.__name__, want_name)))
        except AssertionError as e:
            # which assertion?  the message carries (actual dtype, expected)
            kind = assertion_kind(src, e)
            out.append(("assertion-fired/%s" % kind, "debug=1 type assertion fired for inputs (%s): %s" % (", ".join(map(repr, args)), str(e)[:150])))
        except Exception:
            info["runtime_errors"] += 1
        # (3) independent per-node comparison
        r = dag.NpRef(env, record_flags=False)
        for n in nodes:
            if n.kind in ("list", "apply"):
                continue
            try:
                v = r.eval(n)
            except Exception:
                continue
            if isinstance(v, list):
                continue
            try:
                sT, sname = static_np_type(n)
            except Exception as e:
                out.append(("get_type-raises/%s/%s" % (n.kind, type(e).__name__), "get_type() of a %s node raised %r" % (n.kind, e)))
                break
            if sT is None:
                continue
            rT = type(v) if not isinstance(v, np.ndarray) else v.dtype.type
            if rT is not sT:
                opk = ",".join(str(o.get_type()) if dag.is_expr(o) and o.kind != "list" else "?" for o in n.operands) if n.kind != "constant" else "%s like %s" % (type(n.operands[0]).__name__, n.operands[1].kind)
                out.append(("static-vs-runtime/%s(%s)" % (n.kind, opk), "node %s: static type %s, numpy evaluation gives %s" % (n.kind, sname, rT.__name__)))
                break
        if out:
            break
    return dedupe(out), info


def assertion_kind(src, e):
    """name the kind of the node whose assertion fired, from the emitted source line"""
    import traceback

    tb = traceback.extract_tb(e.__traceback__)
    for fr in reversed(tb):
        if fr.filename == "<string>" and fr.lineno:
            lines = src.splitlines()
            line = lines[fr.lineno - 1].strip() if fr.lineno - 1 < len(lines) else ""
            # previous assignment line defines the variable
            var = line.replace("assert ", "").split(".dtype")[0].strip()
            for ln in lines[: fr.lineno - 1][::-1]:
                t = ln.strip()
                if t.startswith(var + ":") or t.startswith(var + " ="):
                    rhs = t.split("=", 1)[1].strip()
                    for key, kind in (("max(", "maximum"), ("min(", "minimum"), ("numpy.where", "select"), ("numpy.finfo", "named-constant"), ("make_complex", "complex")):
                        if rhs.startswith(key):
                            return kind
                    return rhs.split("(")[0][:24] or "expr"
            return "result" if line.startswith("assert result") else "expr"
    return "unknown"


def dedupe(v):
    seen = set()
    out = []
    for c, w in v:
        if c not in seen:
            seen.add(c)
            out.append((c, w))
    return out


def replay(case):
    return check(case)[0]


def cases():
    return st.builds(
        lambda spec, vseed, rw, alt, fr: {"spec": progs.prune(spec), "vseed": vseed, "rewrite": rw, "alt": alt, "force_refs": fr},
        progs.programs(
            main_sorts=("f16", "f32", "f64"),
            max_nodes=18,
            mixed=True,
            complex_ok=True,
            np_consts=True,
            allow_list=True,
            extra_unary=["exp", "log1p", "floor", "sin", "atan", "asinh"],
            extra_binary=["atan2", "copysign", "hypot", "pow"],
            extra_pred=["is_finite"],
        ),
        st.integers(0, 2**31 - 1),
        st.booleans(),
        st.sampled_from([None, None, None, "float64", "float32"]),  # alternative constant context of the given type
        st.sampled_from([True, True, False]),  # every node referenced (asserted) / printed inline where used once
    )


def nontrivial(spec):
    types = {t for _, t in spec["syms"]}
    ks = {nd[0] for nd in spec["nodes"]}
    return len(types) >= 2 or bool(ks & {"lt", "le", "gt", "ge", "eq", "ne", "select", "absolute", "real", "imag", "complex"}) or any(nd[0] in ("const", "named") and spec["nodes"][nd[2]][0] != "sym" for nd in spec["nodes"])


def _shard(task):
    from harness.runner import Ctx

    seed, shard, n, known = task
    sub = Ctx("C08", "quick", seed * 64 + shard, known)

    def body(case, part):
        bad, info = check(case)
        part.count(1, "rewritten" if case["rewrite"] else "as-built")
        part.label("nodes-checked", info["nodes"])
        part.label("runs", info["runs"])
        part.label("runtime-errors-not-type-related", info["runtime_errors"])
        for t in {t for _, t in case["spec"]["syms"]}:
            part.label("symbol-type/" + t)
        if nontrivial(case["spec"]) and info["runs"]:
            part.nontrivial(case)
        if len(part.samples) < 1 and info["runs"]:
            part.sample(case["spec"])
        return bad

    hyp.drive(sub, cases(), body, n, stream=shard, max_classes=14)
    p = Partial()
    p.merge(sub)
    return p


def shipped(ctx):
    """all shipped algorithms for the numpy target with debug=1 (incl. a float16 variant of the real ones)."""
    import functional_algorithms as fa
    from harness import units

    p = Partial()
    for u in units.all_units(("numpy",)):
        g = units.build_graph(u)
        if g is None:
            continue
        try:
            with contextlib.redirect_stdout(io.StringIO()):
                src = g.tostring(fa.targets.numpy, debug=1)
            ns = dict(numpy=np, warnings=warnings, sys=sys, make_complex=fa.utils.make_complex, finfo_float32=np.finfo(np.float32), finfo_float64=np.finfo(np.float64))
            exec(src, ns)
            fn = ns[g.props["name"]]
        except Exception as e:
            p.violation("shipped/as_function-raises", "%s: %r" % (u, e), {"unit": list(u)})
            continue
        atypes = fa.targets.numpy.trace_arguments[u[1]][u[2]]
        rng = ctx.rng(8, hash(u[1]) % 1000, u[2])
        grids = [input_grid(t.split(":")[1], rng, 40) for t in atypes]
        for k in range(40):
            args = [g_[k] for g_ in grids]
            try:
                with np.errstate(all="ignore"), contextlib.redirect_stdout(io.StringIO()):
                    fn(*args)
            except AssertionError as e:
                p.violation("shipped/assertion-fired/%s" % u[1], "%s%r: %s" % (u, tuple(args), str(e)[:120]), {"unit": list(u), "args": [repr(a) for a in args]})
                break
            except Exception:
                pass
            p.count(1, "shipped/" + u[1])
    return p


def run(ctx):
    ctx.rule = (
        "Hypothesis-generated programs over float16/32/64 and complex64/128 symbols with mixed widths, numeric constants of Python and "
        "numpy types, named constants, comparisons, select, abs/real/imag/complex, casts, lists; every node force-referenced, emitted "
        "with debug=1 through the NumPy target (as built, and after the algebraic rewriter), exec'd and run on 12 inputs from the special "
        "grid; plus every shipped numpy unit with debug=1 on 40 inputs. Oracles: emitted dtype assertions, returned dtype vs static type, "
        "per-node numpy-scalar dtype vs get_type(). Non-trivial = >=2 distinct symbol dtypes or a comparison/select/abs/real/imag/complex "
        "node or a constant whose like is a composite expression; distinct by case. Plus a deterministic probe of every (kind, left dtype, "
        "right dtype, operand order) combination, every named constant and numeric literals per dtype, and a coverage-guided campaign "
        "(atheris/libFuzzer over the same strategy and oracle), counted under kind-probe/* and fuzz/*."
    )
    ctx.assumptions = ["complex(float32, float64) and float128 arithmetic are outside what the NumPy target expresses and not generated", "runtime errors other than AssertionError are C05's subject and only counted"]
    ctx.merge(shipped(ctx))
    n = 900 if ctx.quick else 12000
    ctx.pmap(_shard, [(ctx.seed, s, n, ctx.known) for s in range(16)])
    ctx.pmap(kind_probe, [(ctx.seed, i, i + 50) for i in range(0, 1150, 50)])
    from harness import fuzz

    fuzz.campaign(ctx, "C08", ["numpy-debug"], runs=600 if ctx.quick else 15000, workers=8 if ctx.quick else 16)


# ---- coverage-guided tier (harness/fuzz.py)
def fuzz_strategy(variant):
    return cases()


# ---- per-kind x dtype-combination probe (the random strategy mixes widths, but each (kind, left dtype, right dtype,
# operand order) combination is rare; here every one is visited once per run)
PROBE_UNARY = ["negative", "positive", "absolute", "sign", "sqrt", "square", "exp", "expm1", "log", "log1p", "sin", "cos", "tan", "sinh", "cosh", "tanh", "asin", "acos", "atan", "asinh", "acosh", "atanh", "floor", "ceil", "real", "imag", "conjugate"]
PROBE_BINARY = ["add", "subtract", "multiply", "divide", "minimum", "maximum", "atan2", "copysign", "hypot", "pow", "complex", "lt", "le", "gt", "ge", "eq", "ne"]
PROBE_TYPES = ["float16", "float32", "float64", "complex64", "complex128"]


def kind_probe(task):
    seed, lo, hi = task
    p = Partial()
    specs = []
    for T in PROBE_TYPES:
        syms = [["x", T]]
        for k in PROBE_UNARY:
            specs.append((k, {"syms": syms, "nodes": [["sym", 0], [k, 0]], "root": 1}))
        for name in progs.NAMED + ["pi"]:
            specs.append(("named:" + name, {"syms": syms, "nodes": [["sym", 0], ["named", name, 0]], "root": 1}))
            specs.append(("named:" + name, {"syms": syms, "nodes": [["sym", 0], ["named", name, 0], ["real", 0], ["lt", 2, 2], ["named", "smallest", 0], ["select", 3, 1, 4]], "root": 5}))
        for v in (["int", 2], ["float", 0.5], ["int", 0]):
            specs.append(("const", {"syms": syms, "nodes": [["sym", 0], ["const", v, 0]], "root": 1}))
            specs.append(("const", {"syms": syms, "nodes": [["sym", 0], ["const", v, 0], ["multiply", 1, 0]], "root": 2}))
    for T1 in PROBE_TYPES:
        for T2 in PROBE_TYPES:
            syms = [["x", T1], ["y", T2]]
            for k in PROBE_BINARY:
                specs.append((k, {"syms": syms, "nodes": [["sym", 0], ["sym", 1], [k, 0, 1]], "root": 2}))
            specs.append(("select", {"syms": syms, "nodes": [["sym", 0], ["sym", 1], ["real", 0], ["real", 1], ["lt", 2, 3], ["select", 4, 0, 1]], "root": 5}))
            specs.append(("select", {"syms": syms, "nodes": [["sym", 0], ["sym", 1], ["real", 0], ["real", 1], ["lt", 2, 3], ["select", 4, 1, 0]], "root": 5}))
            for k in ("absolute", "real", "imag", "negative", "square", "conjugate"):
                for order in ([0, 1], [1, 0]):
                    specs.append((k + "(select)", {"syms": syms, "nodes": [["sym", 0], ["sym", 1], ["real", 0], ["real", 1], ["lt", 2, 3], ["select", 4] + order, [k, 5], ["add", 6, 6]], "root": 7}))
    for k, spec in specs[lo:hi]:
        try:
            progs.build(spec)
        except Exception:
            p.count(1, "kind-probe/not-buildable")  # e.g. ordering comparison or hypot of complex operands
            continue
        for rw in (False, True):
            case = {"spec": spec, "vseed": seed, "rewrite": rw}
            bad, info = check(case)
            p.count(1, "kind-probe")
            p.label("kind-probe/runs", info["runs"])
            if info["runs"]:
                p.nontrivial(("kind-probe", k, [t for _, t in spec["syms"]], spec["nodes"][-1], rw))
            for cls, what in bad:
                p.violation(cls, "kind probe %s%r: %s" % (k, [t for _, t in spec["syms"]], what), case)
    return p
