"""C06 — StableHLO and XLA-client output is a faithful rendering of the graph.

The emitted .td pattern / .cc builder function is parsed back by harness/parsers.py and walked simultaneously with the
graph.  Operator tables below were written from the StableHLO / CHLO / XLA client documentation (the targets' own
kind_to_target tables are not used for semantics).
"""

import contextlib
import io
import math
import sys
import warnings

import numpy as np

from harness import dag, hyp, parsers, progs, units
from harness.runner import Partial

warnings.filterwarnings("ignore")
st = hyp.st

STABLEHLO_OP = {
    "absolute": "StableHLO_AbsOp",
    "negative": "StableHLO_NegOp",
    "add": "StableHLO_AddOp",
    "subtract": "StableHLO_SubtractOp",
    "multiply": "StableHLO_MulOp",
    "divide": "StableHLO_DivOp",
    "logical_and": "StableHLO_AndOp",
    "logical_or": "StableHLO_OrOp",
    "logical_xor": "StableHLO_XorOp",
    "logical_not": "StableHLO_NotOp",
    "maximum": "StableHLO_MaxOp",
    "minimum": "StableHLO_MinOp",
    "atan2": "StableHLO_Atan2Op",
    "cos": "StableHLO_CosineOp",
    "sin": "StableHLO_SineOp",
    "exp": "StableHLO_ExpOp",
    "expm1": "StableHLO_Expm1Op",
    "log": "StableHLO_LogOp",
    "log1p": "StableHLO_Log1pOp",
    "sign": "StableHLO_SignOp",
    "real": "StableHLO_RealOp",
    "imag": "StableHLO_ImagOp",
    "complex": "StableHLO_ComplexOp",
    "sqrt": "StableHLO_SqrtOp",
    "select": "StableHLO_SelectOp",
    "is_finite": "StableHLO_IsFiniteOp",
    "asin": "CHLO_AsinOp",
    "acos": "CHLO_AcosOp",
    "atan": "CHLO_AtanOp",
    "asinh": "CHLO_AsinhOp",
    "acosh": "CHLO_AcoshOp",
    "atanh": "CHLO_AtanhOp",
    "nextafter": "CHLO_NextAfterOp",
}
STABLEHLO_NAMED = {
    "largest": "StableHLO_ConstantLikeMaxFiniteValue",
    "smallest": "StableHLO_ConstantLikeSmallestNormalizedValue",
    "posinf": "StableHLO_ConstantLikePosInfValue",
    "neginf": "StableHLO_ConstantLikeNegInfValue",
    "pi": 'StableHLO_ConstantLike<"M_PI">',
}
DIRECTION = {"lt": "LT", "le": "LE", "gt": "GT", "ge": "GE", "eq": "EQ", "ne": "NE"}
UNCERTAIN_STABLEHLO = {"positive", "asin_acos_kernel", "bitwise_left_shift", "bitwise_right_shift"}

XLA_OP = {
    "absolute": "Abs",
    "negative": "Neg",
    "add": "Add",
    "subtract": "Sub",
    "multiply": "Mul",
    "divide": "Div",
    "remainder": "Rem",
    "pow": "Pow",
    "logical_and": "And",
    "logical_or": "Or",
    "logical_xor": "Xor",
    "logical_not": "Not",
    "maximum": "Max",
    "minimum": "Min",
    "acos": "Acos",
    "acosh": "Acosh",
    "asin": "Asin",
    "asinh": "Asinh",
    "atan": "Atan",
    "atanh": "Atanh",
    "atan2": "Atan2",
    "cos": "Cos",
    "cosh": "Cosh",
    "sin": "Sin",
    "sinh": "Sinh",
    "tan": "Tan",
    "tanh": "Tanh",
    "exp": "Exp",
    "expm1": "Expm1",
    "log": "Log",
    "log1p": "Log1p",
    "ceil": "Ceil",
    "floor": "Floor",
    "round": "Round",
    "sign": "Sign",
    "real": "Real",
    "imag": "Imag",
    "complex": "Complex",
    "square": "Square",
    "sqrt": "Sqrt",
    "select": "Select",
    "lt": "Lt",
    "le": "Le",
    "gt": "Gt",
    "ge": "Ge",
    "eq": "Eq",
    "ne": "Ne",
    "is_finite": "IsFinite",
    "is_inf": "IsInf",
    "is_posinf": "IsPosInf",
    "is_neginf": "IsNegInf",
    "is_nan": "IsNan",
    "is_negzero": "IsNegZero",
    "nextafter": "NextAfter",
}
UNCERTAIN_XLA = {"positive", "log2", "log10", "bitwise_and", "bitwise_or", "bitwise_xor", "bitwise_invert", "bitwise_left_shift", "bitwise_right_shift"}


class Mismatch(Exception):
    def __init__(self, cls, what):
        self.cls, self.what = cls, what


class Skip(Exception):
    pass


def complexness(expr, symtypes):
    """is the value of expr complex? decided by evaluating with dummy inputs (independent of get_type/is_complex)"""
    if expr.kind == "constant":
        return complexness(expr.operands[1], symtypes)  # a constant has the element type of its like operand
    env = {}
    for name, t in symtypes:
        env[name] = dag.NP_TYPES.get(t, np.float64)(1)
    try:
        v = dag.NpRef(env, record_flags=False).eval(expr)
    except Exception:
        return None
    if isinstance(v, list):
        return None
    return isinstance(v, (complex, np.complexfloating))


def equivalent_constants(a, b, symtypes, counters):
    """two distinct constant nodes with identical value whose like operands have the same element type may share a
    name (the rendering is value-equivalent); anything else sharing a name is a mismatch"""
    if not (a.kind == "constant" and b.kind == "constant"):
        return False
    va, vb = a.operands[0], b.operands[0]
    if dag.is_expr(va) or dag.is_expr(vb):
        try:
            same = alt_value(va) == alt_value(vb)
        except Exception:
            return False
    else:
        same = type(va) is type(vb) and (va == vb) and (str(va) == str(vb))
    if not same:
        return False
    ca, cb = complexness(a, symtypes), complexness(b, symtypes)
    if ca is not None and cb is not None and ca != cb:
        raise Mismatch("constants-of-different-element-type-share-a-name", "two constants with value %r, one attached to a complex and one to a real operand, are rendered under one name" % (va,))
    if ca is None or cb is None:
        return False
    counters["equivalent-constants-share-a-name"] = counters.get("equivalent-constants-share-a-name", 0) + 1
    return True


# ------------------------------------------------------------------------------------------------ StableHLO


def check_td(text, g, symtypes, counters):
    args = g.operands[1:-1]
    body = g.operands[-1]
    try:
        name, targs, tree = parsers.parse_td(text)
    except parsers.ParseError as e:
        raise Mismatch("td/does-not-parse", "emitted pattern does not parse: %s" % e)
    if len(targs) != len(args):
        raise Mismatch("td/arguments", "pattern has %d arguments, the function %d" % (len(targs), len(args)))
    env = {}
    for (ty, nm), a in zip(targs, args):
        want = "ComplexElementType" if complexness(a, symtypes) else "NonComplexElementType"
        if nm != a.operands[0]:
            raise Mismatch("td/arguments", "argument %r printed as %r" % (a.operands[0], nm))
        if ty != want:
            raise Mismatch("td/argument-type", "argument %s has element type %s, expected %s" % (nm, ty, want))
        if nm in env:
            raise Mismatch("td/bound-twice", "argument name %s bound twice" % nm)
        env[nm] = a
    bindings = {"n": 0, "refs": 0, "consts": 0}

    def walk(t, e):
        if isinstance(t, tuple) and t[0] == "ref":
            nm = t[1]
            if nm not in env:
                raise Mismatch("td/reference-before-binding", "$%s is referenced before (or without) being bound" % nm)
            if env[nm] is not e and not equivalent_constants(env[nm], e, symtypes, counters):
                raise Mismatch("td/reference-to-wrong-value", "$%s refers to a %s node, the graph operand is a different %s node" % (nm, env[nm].kind, e.kind))
            bindings["refs"] += 1
            return
        if isinstance(t, tuple):
            raise Mismatch("td/structure", "attribute %r where an operand (%s) is expected" % (t[1], e.kind))
        if e.kind == "symbol":
            raise Mismatch("td/structure", "symbol %s rendered as operator %s" % (e.operands[0], t.op))
        if t.binding is not None:
            if t.binding in env:
                raise Mismatch("td/bound-twice", "name $%s is bound twice" % t.binding)
            env[t.binding] = e
            bindings["n"] += 1
        if e.kind == "constant":
            value, like = e.operands
            bindings["consts"] += 1
            if isinstance(value, str):
                want = STABLEHLO_NAMED.get(value)
                if want is None:
                    raise Skip()
                if t.op != want:
                    raise Mismatch("td/named-constant", "named constant %s rendered as %s (expected %s)" % (value, t.op, want))
            else:
                if not t.op.startswith('StableHLO_ConstantLike<"') or not t.op.endswith('">'):
                    raise Mismatch("td/constant-op", "numeric constant rendered as %s" % t.op)
                txt = t.op[len('StableHLO_ConstantLike<"') : -2]
                if not same_number(txt, value):
                    raise Mismatch("td/constant-value", "constant %r rendered as %r" % (value, txt))
            if len(t.operands) != 1:
                raise Mismatch("td/constant-operand", "ConstantLike has %d operands" % len(t.operands))
            o = t.operands[0]
            if isinstance(o, tuple) and o[0] == "ref":
                if o[1] not in env:
                    tc = "/type-carrier-symbol" if o[1].startswith("symbol__") else ""
                    raise Mismatch("td/constant-like-unbound" + tc, "constant is attached to $%s which is not bound at that point" % o[1])
                attached = env[o[1]]
            elif isinstance(o, parsers.TdNode):
                walk(o, like)
                attached = like
            else:
                raise Mismatch("td/constant-operand", "constant attached to %r" % (o,))
            ca, cc = complexness(attached, symtypes), complexness(e, symtypes)
            if ca is not None and cc is not None and ca != cc:
                raise Mismatch("td/constant-element-type", "a %s constant is attached to a %s operand" % ("complex" if cc else "real", "complex" if ca else "real"))
            return
        if e.kind in DIRECTION:
            if t.op != "StableHLO_CompareOp":
                raise Mismatch("td/operator", "%s rendered as %s" % (e.kind, t.op))
            if len(t.operands) != 4:
                raise Mismatch("td/arity", "CompareOp with %d operands" % len(t.operands))
            walk(t.operands[0], e.operands[0])
            walk(t.operands[1], e.operands[1])
            d = t.operands[2]
            want = 'StableHLO_ComparisonDirectionValue<"%s">' % DIRECTION[e.kind]
            if d != ("attr", want):
                raise Mismatch("td/comparison-direction", "%s rendered with direction %r" % (e.kind, d))
            return
        want = STABLEHLO_OP.get(e.kind)
        if want is None:
            counters["uncertain-kind/" + e.kind] = counters.get("uncertain-kind/" + e.kind, 0) + 1
            if e.kind in UNCERTAIN_STABLEHLO or True:
                # operator not in the harness table: structure below it is still walked
                pass
        elif t.op != want:
            raise Mismatch("td/operator", "%s rendered as %s (expected %s)" % (e.kind, t.op, want))
        if len(t.operands) != len(e.operands):
            raise Mismatch("td/arity", "%s has %d operands, rendered with %d" % (e.kind, len(e.operands), len(t.operands)))
        for to, eo in zip(t.operands, e.operands):
            walk(to, eo)

    walk(tree, body)
    return bindings


def same_number(txt, value):
    try:
        if isinstance(value, (bool, np.bool_)):
            return txt in ("True", "False", "true", "false") and (txt.lower() == "true") == bool(value)
        if isinstance(value, (int, np.integer)):
            return float(txt) == float(value)
        if isinstance(value, (float, np.floating)):
            v = float(txt)
            if isinstance(value, np.floating):
                return type(value)(v) == value or (np.isnan(value) and math.isnan(v))
            return v == value or (math.isnan(v) and math.isnan(value))
        if isinstance(value, (complex, np.complexfloating)):
            return complex(txt.replace("(", "").replace(")", "")) == complex(value)
    except Exception:
        return False
    return False


# ------------------------------------------------------------------------------------------------ XLA client

DBL = np.finfo(np.float64)


def cc_const_eval(t, cenv):
    """C semantics (double) of the constant sub-language"""
    P = parsers
    if isinstance(t, P.Num):
        return float(t.text)
    if isinstance(t, P.Name):
        if t.name in cenv:
            if cenv[t.name] is None:
                raise Skip()
            return cenv[t.name]
        if t.name == "M_PI":
            return math.pi
        if t.name in ("true", "false"):
            return t.name == "true"
        raise Mismatch("cc/constant-undeclared", "constant expression uses undeclared %s" % t.name)
    if isinstance(t, P.Unary):
        v = cc_const_eval(t.a, cenv)
        return (not v) if t.op == "!" else -v
    if isinstance(t, P.Ternary):
        return cc_const_eval(t.a, cenv) if cc_const_eval(t.c, cenv) else cc_const_eval(t.b, cenv)
    if isinstance(t, P.BinOp) and t.op in ("<", "<=", ">", ">=", "==", "!=", "&&", "||"):
        a, b = cc_const_eval(t.a, cenv), cc_const_eval(t.b, cenv)
        return {"<": a < b, "<=": a <= b, ">": a > b, ">=": a >= b, "==": a == b, "!=": a != b, "&&": bool(a) and bool(b), "||": bool(a) or bool(b)}[t.op]
    if isinstance(t, P.BinOp):
        a, b = cc_const_eval(t.a, cenv), cc_const_eval(t.b, cenv)
        with np.errstate(all="ignore"):
            if t.op == "%":
                raise Skip()  # integer remainder / invalid on floating operands: not part of the constant sub-language
            return float({"+": np.float64(a) + b, "-": np.float64(a) - b, "*": np.float64(a) * b, "/": np.float64(a) / np.float64(b)}[t.op])
    if isinstance(t, P.Call):
        nm = t.name
        if nm.startswith("std::numeric_limits<") and nm.endswith("::max"):
            return float(DBL.max)
        if nm.startswith("std::numeric_limits<") and nm.endswith("::min"):
            return float(DBL.smallest_normal)
        if nm.startswith("std::numeric_limits<") and nm.endswith("::infinity"):
            return math.inf
        if nm.startswith("std::numeric_limits<") and nm.endswith("::epsilon"):
            return float(DBL.eps)
        args = [cc_const_eval(a, cenv) for a in t.args]
        fn = {"std::sqrt": math.sqrt, "std::log": math.log, "std::exp": math.exp, "std::abs": abs, "std::log1p": math.log1p, "std::log2": math.log2, "std::log10": math.log10, "std::max": max, "std::min": min}.get(nm)
        if fn is None and len(args) == 1 and nm in ("FloatType", "double", "float"):
            return args[0]
        if fn is None:
            raise Skip()
        try:
            return float(fn(*args))
        except (ValueError, OverflowError):
            raise Skip()
    raise Skip()


def alt_value(e):
    """value of an alt-context constant expression in double"""
    if not dag.is_expr(e):
        return float(e)
    k = e.kind
    if k == "constant":
        v = e.operands[0]
        if isinstance(v, str):
            t = {"largest": float(DBL.max), "smallest": float(DBL.smallest_normal), "posinf": math.inf, "neginf": -math.inf, "pi": math.pi, "eps": float(DBL.eps)}
            if v not in t:
                raise Skip()
            return t[v]
        if dag.is_expr(v):
            return alt_value(v)
        return float(v)
    a = [alt_value(o) for o in e.operands]
    with np.errstate(all="ignore"):
        if k == "add":
            return float(np.float64(a[0]) + a[1])
        if k == "subtract":
            return float(np.float64(a[0]) - a[1])
        if k == "multiply":
            return float(np.float64(a[0]) * a[1])
        if k == "divide":
            return float(np.float64(a[0]) / np.float64(a[1]))
        if k == "negative":
            return -a[0]
        if k == "positive":
            return a[0]
        if k == "absolute":
            return abs(a[0])
        if k == "square":
            return float(np.float64(a[0]) * a[0])
        if k == "sqrt":
            return float(np.sqrt(np.float64(a[0])))
        if k == "log":
            return float(np.log(np.float64(a[0])))
        if k == "exp":
            return float(np.exp(np.float64(a[0])))
        if k == "maximum":
            return max(a)
        if k == "minimum":
            return min(a)
        if k in DIRECTION:
            return {"lt": a[0] < a[1], "le": a[0] <= a[1], "gt": a[0] > a[1], "ge": a[0] >= a[1], "eq": a[0] == a[1], "ne": a[0] != a[1]}[k]
        if k == "select":
            return a[1] if a[0] else a[2]
        if k == "logical_and":
            return bool(a[0]) and bool(a[1])
        if k == "logical_or":
            return bool(a[0]) or bool(a[1])
        if k == "logical_not":
            return not a[0]
    raise Skip()


def check_cc(text, g, symtypes, counters):
    P = parsers
    args = g.operands[1:-1]
    body = g.operands[-1]
    try:
        tmpl, name, targs, decls, ret = P.parse_cc(text)
    except P.ParseError as e:
        hint = "/real-imag-of-constant-expression" if (").real()" in text or ").imag()" in text) else ""
        raise Mismatch("cc/does-not-parse" + hint, "emitted function does not parse: %s" % e)
    if [a for _, a in targs] != [a.operands[0] for a in args]:
        raise Mismatch("cc/arguments", "arguments %r vs %r" % ([a for _, a in targs], [a.operands[0] for a in args]))
    order = {}
    decl = {}
    for i, (ty, var, tree) in enumerate(decls):
        if var in decl or var in [a for _, a in targs]:
            raise Mismatch("cc/declared-twice", "variable %s is declared twice" % var)
        decl[var] = (ty, tree)
        order[var] = i
    bound = {a.operands[0]: a for a in args}
    cenv = {}
    # constant-context declarations are evaluated in textual order
    for ty, var, tree in decls:
        if ty != "XlaOp":
            try:
                cenv[var] = cc_const_eval(tree, cenv)
            except Skip:
                cenv[var] = None
    info = {"vars": 0, "uses": 0, "consts": 0}

    def walk(t, e, at):
        """at = index of the statement whose right-hand side is being walked (len(decls) for the return)"""
        if e.kind == "positive" and not (isinstance(t, P.Name) and ((t.name in decl and t.name not in bound) or bound.get(t.name) is e)):
            # the XLA-client template of unary plus is the identity "({0})": the text of +x is the text of x
            return walk(t, e.operands[0], at)
        if isinstance(t, P.Name):
            nm = t.name
            if nm in bound:
                if bound[nm] is not e and not equivalent_constants(bound[nm], e, symtypes, counters):
                    raise Mismatch("cc/variable-for-wrong-value", "variable %s stands for a %s node, the graph operand is a different %s node" % (nm, bound[nm].kind, e.kind))
                info["uses"] += 1
                return
            if nm not in decl:
                if nm.startswith("_") and nm.endswith("_value"):
                    raise Mismatch("cc/constant-like-unbound/type-carrier-symbol", "ScalarLike refers to %s which is never declared" % nm)
                raise Mismatch("cc/undeclared-variable", "variable %s is used but never declared" % nm)
            if order[nm] >= at:
                raise Mismatch("cc/use-before-declaration", "variable %s is used before its declaration" % nm)
            bound[nm] = e
            info["vars"] += 1
            if decl[nm][0] != "XlaOp":
                raise Mismatch("cc/constant-variable-as-op", "constant-context variable %s used as an XlaOp" % nm)
            walk(decl[nm][1], e, order[nm])
            return
        if e.kind == "symbol":
            raise Mismatch("cc/structure", "symbol %s rendered as %r" % (e.operands[0], t))
        if e.kind == "constant":
            info["consts"] += 1
            if not isinstance(t, P.Call) or t.name != "ScalarLike" or len(t.args) != 2:
                raise Mismatch("cc/constant-form", "constant rendered as %r" % (t,))
            like_t, val_t = t.args
            value, like = e.operands
            if isinstance(like_t, P.Name):
                if like_t.name not in bound:
                    if like_t.name in decl and order[like_t.name] < at:
                        walk(like_t, like, at)
                    else:
                        tc = "/type-carrier-symbol" if (like_t.name.startswith("symbol__") or (like_t.name.startswith("_") and like_t.name.endswith("_value"))) else ""
                        raise Mismatch("cc/constant-like-unbound" + tc, "ScalarLike refers to %s which is not declared at that point" % like_t.name)
                attached = bound[like_t.name]
            else:
                # the like operand rendered in place
                walk(like_t, like, at)
                attached = like
            ca, cc_ = complexness(attached, symtypes), complexness(e, symtypes)
            if ca is not None and cc_ is not None and ca != cc_:
                raise Mismatch("cc/constant-element-type", "a %s constant is attached to a %s operand" % ("complex" if cc_ else "real", "complex" if ca else "real"))
            try:
                got = cc_const_eval(val_t, cenv)
                want = alt_value(value)
            except Skip:
                counters["constant-expression-not-evaluated"] = counters.get("constant-expression-not-evaluated", 0) + 1
                return
            if got is None:
                return
            if not (got == want or (math.isnan(got) and math.isnan(want)) or (want != 0 and abs(got - want) <= 4e-16 * abs(want))):
                raise Mismatch("cc/constant-value", "constant with value %r rendered as %r = %r" % (want, val_t, got))
            return
        if not isinstance(t, P.Call):
            raise Mismatch("cc/structure", "%s node rendered as %r" % (e.kind, t))
        want = XLA_OP.get(e.kind)
        if want is None:
            counters["uncertain-kind/" + e.kind] = counters.get("uncertain-kind/" + e.kind, 0) + 1
        elif t.name != want:
            raise Mismatch("cc/operator", "%s rendered as %s (expected %s)" % (e.kind, t.name, want))
        if len(t.args) != len(e.operands):
            raise Mismatch("cc/arity", "%s has %d operands, rendered with %d" % (e.kind, len(e.operands), len(t.args)))
        for to, eo in zip(t.args, e.operands):
            walk(to, eo, at)

    walk(ret, body, len(decls))
    # every XlaOp declaration must have been used by the walk (otherwise it is dead or mis-attributed)
    return info


# ------------------------------------------------------------------------------------------------ drivers


def check_unit_text(target, g, symtypes, counters):
    import functional_algorithms as fa

    tgt = getattr(fa.targets, target)
    try:
        with warnings.catch_warnings(record=True) as wl:
            warnings.simplefilter("always")
            with contextlib.redirect_stdout(io.StringIO()):
                text = g.tostring(tgt)
    except NotImplementedError:
        return None, None
    except KeyError as e:
        if str(e).strip("'") in ("complex64", "complex128", "float16", "float32", "float64", "float128"):
            return None, None  # a type the target does not declare
        return [("%s/tostring-raises/KeyError" % target, "tostring raised %r" % (e,))], None
    except Exception as e:
        return [("%s/tostring-raises/%s" % (target, type(e).__name__), "tostring raised %r" % (e,))], None
    try:
        info = (check_td if target == "stablehlo" else check_cc)(text, g, symtypes, counters)
    except Mismatch as m:
        return [(m.cls, m.what)], None
    except Skip:
        return [], None
    return [], info


def shipped(ctx):
    p = Partial()
    for target in ("stablehlo", "xla_client"):
        for u in units.all_units((target,)):
            g = units.build_graph(u)
            if g is None:
                p.skip("target-rejects-unit")
                continue
            args = g.operands[1:-1]
            symtypes = [(a.operands[0], str(a.operands[1])) for a in args]
            counters = {}
            bad, info = check_unit_text(target, g, symtypes, counters)
            if bad is None:
                p.skip("target-rejects-unit")
                continue
            for c, w in bad:
                p.violation("shipped/" + c, "%s: %s" % ("/".join(map(str, u)), w), {"unit": list(u)})
            p.count(1, "shipped/" + target)
            for k, v in counters.items():
                p.label(target + "/" + k, v)
            if info:
                p.nontrivial(("shipped",) + tuple(u))
            if len(p.samples) < 2:
                p.sample({"unit": list(u), "walk": info})
    return p


def gen_cases(target):
    kinds_ok = set(STABLEHLO_OP if target == "stablehlo" else XLA_OP) | set(DIRECTION)
    return st.builds(
        lambda spec, refs, rw: {"target": target, "spec": progs.prune(spec), "refs": refs, "rewrite": rw},
        progs.programs(
            main_sorts=("f",) if target == "stablehlo" else ("f",),
            max_nodes=16,
            kinds=kinds_ok | {"const", "named"},
            allow_cast=False,
            allow_list=False,
            allow_named=True,
            named=("largest", "smallest", "posinf", "neginf"),
            allow_xor=True,
            complex_ok=True,
            complex_sorts=("c",),
            extra_unary=[k for k in ("exp", "log", "log1p", "sin", "cos", "floor", "ceil") if k in kinds_ok],
            extra_binary=[k for k in ("atan2", "remainder", "pow") if k in kinds_ok],
            extra_pred=[k for k in ("is_finite",) if k in kinds_ok],  # the other is_* / nextafter kinds have no Context constructor
        ),
        st.dictionaries(st.integers(0, 20).map(str), st.sampled_from(["a", "b", "a", "t", "one", "abs_x", "v"]), max_size=4),
        st.booleans(),
    )


def prepare(case):
    import functional_algorithms as fa
    from functional_algorithms.expr import make_apply

    target = case["target"]
    spec = case["spec"]
    if target == "xla_client":
        ctx = fa.Context(paths=[fa.algorithms], enable_alt=True, default_constant_type="FloatType")
    else:
        ctx = fa.Context(paths=[fa.algorithms])
    ctx, ex, root, syms = progs.build(spec, ctx=ctx, refs=case["refs"])
    args = tuple(s.reference(ref_name=s.operands[0]) for s in syms)
    name = ctx.symbol("fn").reference(ref_name="fn")
    g = make_apply(ctx, name, args, root)
    tgt = getattr(fa.targets, target)
    with contextlib.redirect_stdout(io.StringIO()):
        g = g.rewrite(tgt)
        if case["rewrite"]:
            g = g.rewrite(fa.rewrite)
    return g


def check_case(case):
    try:
        g = prepare(case)
    except NotImplementedError:
        return [], None, {}
    except Exception as e:
        return [("prepare-raises/%s" % type(e).__name__, "preparing the graph for %s raised %r" % (case["target"], e))], None, {}
    symtypes = [(n, t) for n, t in case["spec"]["syms"]]
    counters = {}
    bad, info = check_unit_text(case["target"], g, symtypes, counters)
    if bad is None:
        return [], None, counters
    return bad, info, counters


def replay(case):
    if "unit" in case:
        u = tuple(case["unit"])
        g = units.build_graph(u)
        args = g.operands[1:-1]
        bad, _ = check_unit_text(u[0], g, [(a.operands[0], str(a.operands[1])) for a in args], {})
        return bad or []
    return check_case(case)[0]


def _gen_shard(task):
    from harness.runner import Ctx

    seed, shard, n, known, target = task
    sub = Ctx("C06", "quick", seed * 64 + shard, known)

    def body(case, part):
        bad, info, counters = check_case(case)
        part.count(1, "generated/" + target)
        for k, v in counters.items():
            part.label(target + "/" + k, v)
        if info:
            if target == "stablehlo" and info.get("n", 0) >= 1 and info.get("refs", 0) >= 1 and info.get("consts", 0) >= 1:
                part.nontrivial(case)
            if target == "xla_client" and info.get("vars", 0) >= 1 and info.get("consts", 0) >= 1:
                part.nontrivial(case)
        if len(part.samples) < 1 and info:
            part.sample({"target": target, "spec": case["spec"], "refs": case["refs"], "walk": info})
        return bad

    hyp.drive(sub, gen_cases(target), body, n, stream=shard, max_classes=10)
    p = Partial()
    p.merge(sub)
    return p


def run(ctx):
    ctx.rule = (
        "every shipped (function, signature) unit of the stablehlo (25) and xla_client (41, alt constant context) targets, plus "
        "Hypothesis-generated graphs over the kinds each target declares (named and numeric constants, constants as left operands, user "
        "reference names incl. colliding ones, with and without the algebraic rewriter); the emitted text is parsed by an independent "
        "parser and walked together with the graph: operator per kind (harness table from the StableHLO/CHLO/XLA documentation), arity "
        "and operand order, comparison direction, named constants, numeric constants by value, element type of the operand a constant "
        "is attached to, every name bound/declared once and before use, every reference resolving to the identical graph node. "
        "Non-trivial = graph with >=1 named binding that is referenced and >=1 constant; distinct by case. A coverage-guided campaign "
        "(atheris/libFuzzer over the byte string Hypothesis decodes into a case of the same strategies, same oracle) follows; counted under fuzz/*. A per-kind probe renders every operator of the tables once per operand sort and position (kind-probe/*)."
    )
    ctx.assumptions = [
        "operator tables transcribed from the StableHLO / CHLO / XLA client documentation; kinds without a certain counterpart (positive, asin_acos_kernel, log2/log10 for XLA, bitwise ops) are walked structurally but their operator name is not asserted (counted)",
        "constant-context C++ expressions are evaluated in double with a small C evaluator; unknown functions are skipped and counted",
    ]
    ctx.merge(shipped(ctx))
    n = 700 if ctx.quick else 8000
    tasks = [(ctx.seed, s, n, ctx.known, t) for t in ("stablehlo", "xla_client") for s in range(8)]
    ctx.pmap(_gen_shard, tasks)
    for t in ("stablehlo", "xla_client"):
        ctx.merge(kind_probe(t))
    from harness import fuzz

    fuzz.campaign(ctx, "C06", ["stablehlo", "xla_client"], runs=800 if ctx.quick else 40000, workers=8 if ctx.quick else 16)


# ---- coverage-guided tier (harness/fuzz.py)
def fuzz_strategy(variant):
    return gen_cases(variant)


# ---- per-kind probe: every operator of the tables once per operand sort (the random strategy draws only a subset of
# the transcendental / predicate kinds; shipped units use some of the others)
PROBE_UNARY = ["absolute", "negative", "positive", "sign", "sqrt", "square", "exp", "expm1", "log", "log1p", "log2", "log10", "sin", "cos", "tan", "sinh", "cosh", "tanh", "asin", "acos", "atan", "asinh", "acosh", "atanh", "ceil", "floor", "round", "real", "imag", "conjugate"]
PROBE_PRED = ["is_finite", "is_inf", "is_posinf", "is_neginf", "is_nan", "is_negzero"]
PROBE_BINARY = ["add", "subtract", "multiply", "divide", "remainder", "pow", "maximum", "minimum", "atan2", "nextafter", "hypot", "complex"]
PROBE_CMP = ["lt", "le", "gt", "ge", "eq", "ne"]


def probe_specs():
    syms = [["x", "float"], ["y", "float"], ["w", "complex"]]
    base = [["sym", 0], ["sym", 1], ["sym", 2]]
    out = []
    for k in PROBE_UNARY:
        for a in (0, 2):
            out.append((k, {"syms": syms, "nodes": base + [[k, a]], "root": 3}))
            out.append((k, {"syms": syms, "nodes": base + [[k, a], ["add", 3, a]], "root": 4}))
    for k in PROBE_PRED:
        for a in (0,):
            out.append((k, {"syms": syms, "nodes": base + [[k, a], ["select", 3, 0, 1]], "root": 4}))
    for k in PROBE_BINARY:
        for a, b in ((0, 1), (1, 0)) + (((2, 2),) if k in ("add", "subtract", "multiply", "divide") else ()):
            out.append((k, {"syms": syms, "nodes": base + [[k, a, b]], "root": 3}))
    for k in PROBE_CMP:
        out.append((k, {"syms": syms, "nodes": base + [[k, 0, 1], ["select", 3, 0, 1]], "root": 4}))
        out.append((k, {"syms": syms, "nodes": base + [[k, 1, 0], ["logical_not", 3], ["select", 4, 1, 0]], "root": 5}))
    for k in ("logical_and", "logical_or", "logical_xor"):
        out.append((k, {"syms": syms, "nodes": base + [["lt", 0, 1], ["ge", 1, 0], [k, 3, 4], ["select", 5, 0, 1]], "root": 6}))
        out.append((k, {"syms": syms, "nodes": base + [["lt", 0, 1], ["ge", 1, 0], [k, 4, 3], ["select", 5, 0, 1]], "root": 6}))
    return out


def kind_probe(target):
    p = Partial()
    for k, spec in probe_specs():
        try:
            progs.build(spec)
        except Exception:
            p.count(1, "kind-probe/%s/not-buildable" % target)  # the probe's guess of the operand sorts was wrong
            continue
        for rw in (False, True):
            case = {"target": target, "spec": spec, "refs": {}, "rewrite": rw}
            bad, info, counters = check_case(case)
            if info is None and not bad:
                p.count(1, "kind-probe/%s/rejected-by-target" % target)
                continue
            p.count(1, "kind-probe/%s" % target)
            p.nontrivial(("kind-probe", target, k, spec["nodes"][3:], rw))
            for cls, what in bad:
                p.violation(cls, "kind probe %s: %s" % (k, what), case)
    return p
