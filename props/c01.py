"""C01 — complex-plane accuracy of every complex algorithm (16-ULP bound everywhere, target rate on bulk inputs).

Subject: the 14 complex algorithms, expanded by the package's own definitions (harness/npvec.py) and evaluated by the
independent vectorised interpreter.  Oracle: harness/mpref.py (mpmath, Ziv; Annex G at infinite inputs; either side on
branch cuts).  Generators: G1 bit-uniform, G2 log-uniform 2^-12..2^12, G3 special lattice^2, G4 threshold pool read from
the graph (+- ULP neighbours) and function-specific curves, G5 error-maximising local search.
"""

import math
import warnings

import mpmath
import numpy as np

from harness import flt, mpref, npvec
from harness.runner import Partial

warnings.filterwarnings("ignore")
np.seterr(all="ignore")

FUNCS = ["absolute", "acos", "acosh", "asin", "asinh", "atan", "atanh", "exp", "log", "log2", "log10", "log1p", "sqrt", "square"]
TARGET = {fn: 3 for fn in FUNCS}
TARGET["sqrt"] = 4
TARGET["log1p"] = 4
BOUND = 16
ODDF = {"asin", "asinh", "atan", "atanh"}


def evaluate(fname, fb, re, im):
    f = flt.FMT[fb]
    g, ex = npvec.expanded_graph(fname, f.ctype)
    z = np.empty(len(re), dtype=f.ctype)
    z.real = re
    z.imag = im
    r = np.asarray(npvec.run_graph(g, [z]))
    if r.dtype.kind != "c":
        return np.ascontiguousarray(r.astype(f.ftype)), np.zeros(len(re), dtype=f.ftype)
    return np.ascontiguousarray(r.real.astype(f.ftype)), np.ascontiguousarray(r.imag.astype(f.ftype))


def exp_reference(xb, yb, f):
    """exp(x+iy) with huge |x| decided analytically (mpmath's exp does not terminate for |x| >~ 1e5)"""
    x = flt.bits2frac(xb, f)
    # beyond T the factor e^x over/underflows whatever the (non-zero, representable) size of cos y / sin y
    T = (f.emax + 2 * (-f.emin + f.p) + 64) * 0.6932
    if abs(x) <= T:
        return None
    y = mpref.to_mpf(yb, f)
    with mpmath.workprec(max(200, int(mpmath.frexp(abs(y))[1]) + 200 if y != 0 else 200)):
        c, s = mpmath.cos(y), mpmath.sin(y)
        sc = 0 if c == 0 else (1 if c > 0 else -1)
        ss = 0 if s == 0 else (1 if s > 0 else -1)
    ysign = -1 if yb & f.sign_mask else 1
    if x > 0:
        re = ("inf", sc) if sc else ("any",)
        im = ("inf", ss) if ss else ("val", (f.sign_mask if ysign < 0 else 0))
    else:
        re = ("val", f.sign_mask if sc < 0 else 0) if sc else ("zero",)
        im = ("val", f.sign_mask if ss < 0 else 0) if ss else ("val", (f.sign_mask if ysign < 0 else 0))
    return re, im


def judge(fname, fb, xb, yb, gr, gi):
    """returns (status, error_in_lattice_steps, violations).  status: 'ok', 'skip' (oracle undecided)"""
    f = flt.FMT[fb]
    INF = f.inf_bits
    xinf = (xb & ~f.sign_mask) == INF
    yinf = (yb & ~f.sign_mask) == INF
    x = flt.bits_scalar(xb, f)
    y = flt.bits_scalar(yb, f)
    zs = "%s(%r%+rj)" % (fname, float(x), float(y))
    if fname == "absolute":
        gi = 0
    if xinf or yinf:
        try:
            rs, is_ = mpref.annex_g(fname, xb, yb, f)
        except KeyError:
            return "skip", 0, []
        cs = None
        if rs[0].endswith("cos") or is_[0].endswith("sin"):
            yy = mpref.to_mpf(yb, f)
            with mpmath.workprec(max(200, int(mpmath.frexp(abs(yy))[1]) + 200 if yy != 0 else 200)):
                c, s = mpmath.cos(yy), mpmath.sin(yy)
            cs = (0 if c == 0 else (1 if c > 0 else -1), 0 if s == 0 else (1 if s > 0 else -1))
        ok_r = mpref.accept_component(gr, rs, f, BOUND, cs)
        ok_i = fname == "absolute" or mpref.accept_component(gi, is_, f, BOUND, cs)
        if ok_r and ok_i:
            return "ok", 0, []
        # a zero component: the value on the other side of that axis is accepted as well (conjugate / -conjugate)
        xz0 = (xb & ~f.sign_mask) == 0
        yz0 = (yb & ~f.sign_mask) == 0
        alts = []
        if yz0:
            alts.append((xb, yb ^ f.sign_mask, False, True))
        if xz0 and fname in ODDF:
            alts.append((xb ^ f.sign_mask, yb, True, False))
        for axb, ayb, negr, negi in alts:
            try:
                ars, ais = mpref.annex_g(fname, axb, ayb, f)
            except KeyError:
                continue
            g_r, g_i = gr, gi  # the value of the other side itself
            if mpref.accept_component(g_r, ars, f, BOUND, cs) and (fname == "absolute" or mpref.accept_component(g_i, ais, f, BOUND, cs)):
                return "ok", 0, []
        which = "real" if not ok_r else "imag"
        kind = "nan" if flt.is_nan_bits(gr if not ok_r else gi, f) else "value"
        pat = "re=%s,im=%s" % tuple((("-inf" if b & f.sign_mask else "+inf") if sgn else "inf") if (b & ~f.sign_mask) == INF else ("zero" if (b & ~f.sign_mask) == 0 else "finite") for b, sgn in ((xb, True), (yb, False)))
        return "ok", 10**9, [("%s/infinite-input/%s/%s" % (fname, kind, pat), "%s = (%r, %r): %s part violates C99 Annex G %r" % (zs, flt.bits_scalar(gr, f), flt.bits_scalar(gi, f), which, rs if not ok_r else is_))]
    if fname == "exp":
        spec = exp_reference(xb, yb, f)
        if spec is not None:
            ok_r = mpref.accept_component(gr, spec[0], f, BOUND)
            ok_i = mpref.accept_component(gi, spec[1], f, BOUND)
            if ok_r and ok_i:
                return "ok", 0, []
            if (yb & ~f.sign_mask) == 0 and ok_r and mpref.accept_component(gi ^ f.sign_mask, spec[1], f, BOUND):
                return "ok", 0, []
            return "ok", 10**9, [("exp/huge-real-part", "%s = (%r, %r), expected %r" % (zs, flt.bits_scalar(gr, f), flt.bits_scalar(gi, f), spec))]
    if fname in ("log", "log2", "log10") and (xb & ~f.sign_mask) == 0 and (yb & ~f.sign_mask) == 0:
        # pole at the origin, which lies on the branch cut: real part -inf, imaginary part 0 or +-pi (scaled), any side
        scale = {"log": 1.0, "log2": 1 / math.log(2), "log10": 1 / math.log(10)}[fname]
        piv = flt.scalar_bits(f.ftype(math.pi * scale))
        okr = gr == (f.inf_bits | f.sign_mask)
        oki = (gi & ~f.sign_mask) == 0 or (not flt.is_nan_bits(gi, f) and abs(abs(flt.index(gi, f)) - flt.index(piv, f)) <= BOUND)
        if okr and oki:
            return "ok", 0, []
        return "ok", 10**9, [("%s/pole-at-origin" % fname, "%s = (%r, %r), expected (-inf, 0 or +-pi)" % (zs, flt.bits_scalar(gr, f), flt.bits_scalar(gi, f)))]
    try:
        rb, ib, v = mpref.ziv_complex(fname, mpref.to_mpf(xb, f), mpref.to_mpf(yb, f), f)
    except mpref.Undecided:
        return "skip", 0, []
    except (ZeroDivisionError, ValueError, OverflowError):
        return "skip", 0, []
    if rb is None or ib is None:
        return "skip", 0, []
    xz = (xb & ~f.sign_mask) == 0
    yz = (yb & ~f.sign_mask) == 0
    cands = [(rb, ib)]
    if yz:
        cands.append((rb, ib ^ f.sign_mask))  # value on the other side of the real axis (conjugate)
    if xz and fname in ODDF:
        cands.append((rb ^ f.sign_mask, ib))  # value on the other side of the imaginary axis (-conj)
    if xz and yz and fname in ODDF:
        cands.append((rb ^ f.sign_mask, ib ^ f.sign_mask))
    best = None
    for cr, ci in cands:
        e = 0
        for got, want in ((gr, cr), (gi, ci)):
            if flt.is_nan_bits(got, f):
                d = 10**9
            else:
                d = abs(flt.index(got, f) - flt.index(want, f))
            e = max(e, d)
        if best is None or e < best:
            best = e
    if best <= BOUND:
        return "ok", best, []
    nan = flt.is_nan_bits(gr, f) or flt.is_nan_bits(gi, f)
    gotinf = flt.is_inf_bits(gr, f) or flt.is_inf_bits(gi, f)
    kind = "spurious-nan" if nan else ("spurious-inf" if gotinf and flt.is_finite_bits(rb, f) and flt.is_finite_bits(ib, f) else "ulp-bound")
    zone = region(fname, xb, yb, f)
    if xz or yz:
        zone = "zero-component" if zone in ("generic", "huge-component") else "zero-component+" + zone
    return "ok", best, [("%s/%s/%s" % (fname, kind, zone), "%s = (%r, %r), correctly rounded (%r, %r): %s lattice steps (bound %d)" % (zs, flt.bits_scalar(gr, f), flt.bits_scalar(gi, f), flt.bits_scalar(rb, f), flt.bits_scalar(ib, f), best if best < 10**9 else "NaN/inf", BOUND))]


def region(fname, xb, yb, f):
    """coarse region of a failing input (keeps known-finding classes narrow and stable)"""
    x = abs(flt.bits2frac(xb, f))
    y = abs(flt.bits2frac(yb, f))
    def other(t):
        # the open findings at the lines re = +-1 / im = +-1 need the other component to be subnormal (asin family) or
        # to have an underflowing square (atanh, atan, log1p); anything else on those lines is a class of its own
        if fname in ("asin", "acos", "acosh", "asinh"):
            return "+other-subnormal" if 0 < t < f.smallest_normal else ""
        if fname in ("atanh", "atan", "log1p"):
            return "+other-sq-underflows" if 0 < t and t * t <= 4 * f.smallest_normal else ""
        return ""

    if x == 1 and not (fname == "log1p" and not (xb & f.sign_mask)):  # log1p is singular at -1 only
        return "re-one" + other(y)
    if y == 1:
        return "im-one" + other(x)
    sx, sy = 0 < x < f.smallest_normal, 0 < y < f.smallest_normal
    if sx and sy:
        return "both-subnormal"
    if sx:
        return "re-subnormal"
    if sy:
        return "im-subnormal"
    huge = f.largest / 2**f.p
    if x > huge or y > huge:
        return "huge-component"
    return "generic"


# ---------------------------------------------------------------- generators


def g1(rng, f, n):
    return flt.random_bits_floats(rng, n, f), flt.random_bits_floats(rng, n, f)


def g2(rng, f, n):
    def comp():
        return (np.exp2(rng.uniform(-12, 12, size=n)) * rng.choice([-1.0, 1.0], size=n)).astype(f.ftype)

    return comp(), comp()


def special_lattice(f, neighbours=1):
    sp = flt.special_values(f, neighbours=neighbours)
    R, I = np.meshgrid(sp, sp)
    return R.ravel().astype(f.ftype), I.ravel().astype(f.ftype)


_POOL = {}


def pool(fname, f):
    key = (fname, f.bits)
    if key in _POOL:
        return _POOL[key]
    from props.c02 import switch_points as _sw  # real-graph helper works on any graph via npvec.expanded_graph

    g, ex = npvec.expanded_graph(fname, f.ctype)
    seen, consts = set(), []

    def isconst(e):
        if e.kind == "symbol":
            return False
        if e.kind == "constant":
            return True
        return all(isconst(o) for o in e.operands if npvec.is_expr(o))

    def walk(e):
        if not npvec.is_expr(e) or id(e) in seen:
            return
        seen.add(id(e))
        if e.kind not in ("symbol", "apply", "list") and isconst(e):
            consts.append(e)
            return
        for o in e.operands:
            walk(o)

    walk(g.operands[-1])
    evr = npvec.NpVec({g.operands[1].operands[0]: np.ones(1, dtype=f.ctype)})
    vals = set()
    for c in consts:
        try:
            v = float(np.asarray(evr.eval(c)).ravel()[0].real)
        except Exception:
            continue
        if np.isfinite(v) and v != 0:
            for w in (v, math.sqrt(abs(v)), v * v, v / 2, 2 * v, 1 / v):
                w = f.ftype(w)
                if np.isfinite(w) and w != 0:
                    vals.add(abs(float(w)))
    fi = np.finfo(f.ftype)
    vals |= {1.0, 0.5, 1.5, 2.0, float(fi.max), float(fi.smallest_normal), float(fi.eps), float(np.sqrt(fi.max)), float(np.sqrt(fi.smallest_normal)), float(fi.smallest_subnormal)}
    out = []
    for v in sorted(vals):
        i = flt.index(flt.scalar_bits(f.ftype(v)), f)
        for d in (0, 1, -1, 2, -2, 3, -3, 17, -17, 100, -100, 5000, -5000):
            j = i + d
            if 0 <= j <= f.largest_bits:
                out.append(j)
    idx = np.unique(np.array(out, dtype=np.int64))
    p = flt.np_from_index(np.concatenate([idx, -idx]), f)
    _POOL[key] = p
    return p


def g4(rng, f, fname, n):
    p = pool(fname, f)
    a = p[rng.integers(0, len(p), size=n)]
    b = p[rng.integers(0, len(p), size=n)]
    # approach every pool value geometrically as well (index +- 2^u, u uniform in [0, p+3]): a cancellation error peaks at a
    # distance ~2^(p/2) ULP from the threshold, outside the fixed +-5000-ULP neighbourhoods of the pool
    def approach(v):
        d = np.floor(np.exp2(rng.uniform(0, f.p + 3, size=n))).astype(np.int64) * rng.choice([-1, 1], size=n)
        d = np.where(rng.random(n) < 0.5, d, 0)
        ok = np.isfinite(v)
        idx = flt.np_index(np.where(ok, v, 0).astype(f.ftype))
        w = flt.np_from_index(np.clip(idx + d, -f.largest_bits, f.largest_bits), f)
        return np.where(ok, w, v).astype(f.ftype)

    a, b = approach(a), approach(b)
    r1, r2 = g1(rng, f, n)
    sel = rng.integers(0, 3, size=n)
    re = np.where(sel == 1, r1, a).astype(f.ftype)
    im = np.where(sel == 2, r2, b).astype(f.ftype)
    # function-specific curves (constructed, not filtered)
    m = n // 4
    ft = f.ftype
    eps = ft(np.finfo(ft).eps)
    extra_re, extra_im = [], []
    if fname in ("log", "log2", "log10"):
        th = rng.uniform(0, 2 * np.pi, size=m)
        k = rng.integers(-3, 4, size=m)
        extra_re.append((np.cos(th)).astype(ft) * (ft(1) + k.astype(ft) * eps))
        extra_im.append((np.sin(th)).astype(ft))
    if fname == "log1p":
        yy = (np.exp2(rng.uniform(-60, 1, size=m))).astype(ft) * rng.choice([-1, 1], size=m).astype(ft)
        extra_re.append((-(yy.astype(np.float64) ** 2) / 2).astype(ft))
        extra_im.append(yy)
        th = rng.uniform(0, 2 * np.pi, size=m)
        extra_re.append((0.2 * np.cos(th) - 1).astype(ft))
        extra_im.append((0.2 * np.sin(th)).astype(ft))
        tiny = (np.exp2(rng.uniform(np.log2(float(np.finfo(ft).smallest_subnormal)), -20, size=m))).astype(ft)
        extra_re.append(np.full(m, -1, dtype=ft))
        extra_im.append(tiny)
    if fname in ("atanh", "atan", "asin", "acos", "asinh", "acosh"):
        tiny = (np.exp2(rng.uniform(np.log2(float(np.finfo(ft).smallest_subnormal)), 0, size=m))).astype(ft) * rng.choice([-1, 1], size=m).astype(ft)
        huge = (np.exp2(rng.uniform(0, np.log2(float(np.finfo(ft).max)), size=m))).astype(ft)
        one = (ft(1) + rng.integers(-4, 5, size=m).astype(ft) * eps) * rng.choice([-1, 1], size=m).astype(ft)
        other = np.where(rng.random(m) < 0.5, tiny, huge).astype(ft)
        if fname in ("atan", "asinh"):
            extra_re.append(other)
            extra_im.append(one)
        else:
            extra_re.append(one)
            extra_im.append(other)
    if fname == "exp":
        k = rng.integers(1, 1 << 20, size=m)
        yy = (k * (np.pi / 2)).astype(ft)
        yy = flt.np_from_index(flt.np_index(yy) + rng.integers(-3, 4, size=m), f)
        lx = np.log(float(np.finfo(ft).max))
        xx = (rng.choice([lx, 2 * lx, -lx, lx / 2, 1.0], size=m) * (1 + rng.uniform(-1e-3, 1e-3, size=m))).astype(ft)
        extra_re.append(xx)
        extra_im.append(yy)
    if fname == "sqrt":
        sub = flt.np_from_index(rng.integers(1, 1 << 8, size=m), f)
        extra_re.append(sub * rng.choice([-1, 1], size=m).astype(ft))
        extra_im.append(flt.np_from_index(rng.integers(1, 1 << 8, size=m), f) * rng.choice([-1, 1], size=m).astype(ft))
    # every function: both components in the same extreme region (where x*x + y*y, hypot/2 + |x|/2, x*y ... over- or
    # underflow and the fallback formulas take over), random mantissas, exponent offset within +-(p+2)
    fi = np.finfo(ft)
    emax, emin = int(fi.maxexp) - 1, int(fi.minexp)
    anchors = np.array([emax, emax - 1, emax - 2, emax - 4, emax // 2 + 1, emax // 2, emax // 2 - 1, emax // 2 - 3, emin // 2 + 1, emin // 2, emin // 2 - 2, emin + 3, emin + 1, emin, emin - 2, emin - (f.p // 2), emin - f.p + 2])
    ea = anchors[rng.integers(0, len(anchors), size=m)]
    eb = ea + np.where(rng.random(m) < 0.6, rng.integers(-4, 5, size=m), rng.integers(-f.p - 2, f.p + 3, size=m))
    with np.errstate(all="ignore"):
        ma = np.ldexp(rng.uniform(1, 2, size=m), ea).astype(ft)
        mb = np.ldexp(rng.uniform(1, 2, size=m), np.clip(eb, emin - f.p, emax)).astype(ft)
    ma = np.where(np.isfinite(ma), ma, fi.max).astype(ft) * rng.choice([-1, 1], size=m).astype(ft)
    mb = np.where(np.isfinite(mb), mb, fi.max).astype(ft) * rng.choice([-1, 1], size=m).astype(ft)
    swap = rng.random(m) < 0.5
    extra_re.append(np.where(swap, mb, ma).astype(ft))
    extra_im.append(np.where(swap, ma, mb).astype(ft))
    if extra_re:
        re = np.concatenate([re] + extra_re).astype(ft)
        im = np.concatenate([im] + extra_im).astype(ft)
    ok = ~(np.isnan(re) | np.isnan(im))
    return re[ok], im[ok]


def run_batch(fname, fb, re, im, gen, p, stats, collect_worst=None):
    f = flt.FMT[fb]
    gr, gi = evaluate(fname, fb, re, im)
    xb, yb = flt.np_bits(re).astype(np.uint64), flt.np_bits(im).astype(np.uint64)
    grb, gib = flt.np_bits(gr).astype(np.uint64), flt.np_bits(gi).astype(np.uint64)
    n_ok = n_skip = over = 0
    errs = np.zeros(len(re), dtype=np.float64)
    for i in range(len(re)):
        st, e, bad = judge(fname, fb, int(xb[i]), int(yb[i]), int(grb[i]), int(gib[i]))
        if st == "skip":
            n_skip += 1
            errs[i] = -1
            continue
        n_ok += 1
        errs[i] = min(e, 10**9)
        if e > TARGET[fname]:
            over += 1
        for cls, what in bad:
            p.violation(cls, what, {"function": fname, "fmt": fb, "re": int(xb[i]), "im": int(yb[i])})
    key = "%s/f%d/%s" % (fname, fb, gen)
    stats[key] = stats.get(key, [0, 0, 0, 0])
    stats[key][0] += n_ok
    stats[key][1] += over
    stats[key][2] += n_skip
    stats[key][3] = max(stats[key][3], int(errs.max()) if len(errs) else 0)
    p.count(n_ok, key)
    if n_skip:
        p.skip("oracle-undecided/" + key, n_skip)
    nt = (re != 0) & (im != 0) & np.isfinite(re) & np.isfinite(im) & np.isfinite(gr) & np.isfinite(gi) & (errs >= 0)
    p.nontrivial_many((xb[nt] * np.uint64(0x9E3779B97F4A7C15)) ^ yb[nt] ^ np.uint64(hash(fname) & 0xFFFFFF))
    return errs


def mutate(rng, f, re, im, pool_vals):
    """mutations of the error-guided search: +-2^j ULP per component, exponent +-1, swap/negate, snap to pool values"""
    n = len(re)
    ri, ii = flt.np_index(re), flt.np_index(im)
    op = rng.integers(0, 7, size=n)
    j = rng.integers(0, 20, size=n)
    step = (1 << j) * rng.choice([-1, 1], size=n)
    lim = f.largest_bits
    r2 = np.where(op == 0, np.clip(ri + step, -lim, lim), ri)
    i2 = np.where(op == 1, np.clip(ii + step, -lim, lim), ii)
    e = (1 << f.mbits) * rng.choice([-1, 1], size=n)
    r2 = np.where(op == 2, np.clip(ri + np.sign(ri) * e, -lim, lim), r2)
    i2 = np.where(op == 3, np.clip(ii + np.sign(ii) * e, -lim, lim), i2)
    nr, ni = flt.np_from_index(r2, f), flt.np_from_index(i2, f)
    sw = op == 4
    nr, ni = np.where(sw, ni, nr), np.where(sw, nr, ni)
    ng = op == 5
    nr = np.where(ng, -nr, nr)
    sn = op == 6
    pv = pool_vals[rng.integers(0, len(pool_vals), size=n)]
    which = rng.random(n) < 0.5
    nr = np.where(sn & which, pv, nr)
    ni = np.where(sn & ~which, pv, ni)
    return nr.astype(f.ftype), ni.astype(f.ftype)


def _cell_task(task):
    fname, fb, seedtuple, n1, n4, K, R, lattice_nb = task
    f = flt.FMT[fb]
    rng = np.random.Generator(np.random.PCG64(np.random.SeedSequence(list(seedtuple))))
    p = Partial()
    stats = {}
    re, im = g1(rng, f, n1)
    e1 = run_batch(fname, fb, re, im, "G1", p, stats)
    re2, im2 = g2(rng, f, n1)
    e2 = run_batch(fname, fb, re2, im2, "G2", p, stats)
    re3, im3 = special_lattice(f, lattice_nb)
    e3 = run_batch(fname, fb, re3, im3, "G3", p, stats)
    re4, im4 = g4(rng, f, fname, n4)
    e4 = run_batch(fname, fb, re4, im4, "G4", p, stats)
    # G5: error-maximising search seeded with the worst inputs seen so far
    allre = np.concatenate([re, re2, re4])
    allim = np.concatenate([im, im2, im4])
    alle = np.concatenate([e1, e2, e4])
    fin = np.isfinite(allre) & np.isfinite(allim)
    allre, allim, alle = allre[fin], allim[fin], alle[fin]
    order = np.argsort(-alle)[:K]
    cre, cim, ce = allre[order], allim[order], alle[order]
    pv = pool(fname, f)
    for _ in range(R):
        mre, mim = mutate(rng, f, np.repeat(cre, 4), np.repeat(cim, 4), pv)
        ok = np.isfinite(mre) & np.isfinite(mim)
        mre, mim = mre[ok], mim[ok]
        if not len(mre):
            break
        me = run_batch(fname, fb, mre, mim, "G5-search", p, stats)
        cre = np.concatenate([cre, mre])
        cim = np.concatenate([cim, mim])
        ce = np.concatenate([ce, me])
        order = np.argsort(-ce)[:K]
        cre, cim, ce = cre[order], cim[order], ce[order]
    p.notes["stats"] = stats
    if len(ce):
        p.sample({"function": fname, "fmt": fb, "worst_input_after_search": [float(cre[0]), float(cim[0])], "error_lattice_steps": float(ce[0])})
    return p


def clopper_pearson_lower(k, n, alpha=1e-9):
    """one-sided lower confidence bound for a binomial proportion (bisection on the binomial tail)"""
    if k == 0:
        return 0.0
    from math import lgamma, log, exp

    def tail_ge(pv):  # P[X >= k] for X ~ Bin(n, pv)
        if pv <= 0:
            return 0.0
        s = 0.0
        for j in range(k):
            s += exp(lgamma(n + 1) - lgamma(j + 1) - lgamma(n - j + 1) + j * log(pv) + (n - j) * math.log1p(-pv))
        return max(0.0, 1 - s)

    lo, hi = 0.0, k / n
    for _ in range(60):
        mid = (lo + hi) / 2
        if tail_ge(mid) < alpha:
            lo = mid
        else:
            hi = mid
    return lo


def replay(case):
    fb = case["fmt"]
    f = flt.FMT[fb]
    re = np.array([case["re"]], dtype=np.uint64).astype(f.utype).view(f.ftype)
    im = np.array([case["im"]], dtype=np.uint64).astype(f.utype).view(f.ftype)
    gr, gi = evaluate(case["function"], fb, re, im)
    st, e, bad = judge(case["function"], fb, case["re"], case["im"], int(flt.np_bits(gr)[0]), int(flt.np_bits(gi)[0]))
    return bad


def run(ctx):
    q = ctx.quick
    ctx.rule = (
        "14 algorithms x {complex64, complex128}; per cell: G1 uniform over non-NaN bit patterns of both components, G2 components "
        "log-uniform in 2^-12..2^12 with random signs, G3 special lattice^2 (+-0, subnormals, smallest normal, eps, 1/2, 1, 3/2, 2, "
        "sqrt(largest), largest, +-inf and ULP neighbours), G4 threshold pool read out of the expanded graph (input-independent "
        "sub-expressions, their roots/squares/halves/doubles/reciprocals, +-{0,1,2,3,17,100,5000} ULP) crossed with itself and with G1, "
        "plus constructed curves (|z|=1 for the log family, x=-y^2/2, |1+z|=0.2 and z=-1+iy tiny for log1p, x=+-1 (rotated for "
        "atan/asinh) with tiny/huge other component, exp with y next to k*pi/2 and x around log(largest); for every function pairs with both "
        "components in the same extreme region: top binades, around sqrt(largest), around sqrt(smallest), lowest normal and subnormal "
        "binades, exponent offset within +-(p+2), random mantissas), G5 error-maximising local "
        "search from the worst inputs (ULP/exponent steps, swap, negate, snap to pool). Oracle: mpmath Ziv, Annex G at infinities, "
        "either side on branch cuts, analytic exp for huge real parts. Verdicts: every component within 16 lattice steps, no spurious "
        "NaN/inf/sign; on G1 and on G2 the fraction beyond the design target (3; 4 for sqrt, log1p) <= 0.1% (Clopper-Pearson lower "
        "bound at 1-1e-9). Non-trivial = both components finite and non-zero, finite result, oracle decided; distinct by input bits."
    )
    ctx.assumptions = [
        "mpmath elementary functions agree at two working precisions (Ziv); Annex G tables as transcribed in harness/mpref.py",
        "NpVec interpreter = NumPy-target semantics (cross-checked against the exec'd NumPy-target function in C02)",
        "rate verdicts are statistical (sampled)",
    ]
    n1, n4, K, R, nb = (2800, 3200, 96, 4, 0) if q else (40000, 40000, 512, 16, 2)
    tasks = []
    for fb in (32, 64):
        for k, fn in enumerate(FUNCS):
            tasks.append((fn, fb, (ctx.seed, 1, fb, k), n1 if fb == 32 else max(n1 // 2, 200), n4 if fb == 32 else max(n4 // 2, 200), K, R, nb))
    parts = []
    import multiprocessing

    with multiprocessing.get_context("fork").Pool(16) as pool_:
        for part in pool_.imap_unordered(_cell_task, tasks):
            parts.append(part)
    agg = {}
    for part in parts:
        st = part.notes.pop("stats", {})
        ctx.merge(part)
        for k, v in st.items():
            a = agg.setdefault(k, [0, 0, 0, 0])
            a[0] += v[0]
            a[1] += v[1]
            a[2] += v[2]
            a[3] = max(a[3], v[3])
    rates = {}
    for k, (n, over, skipped, worst) in sorted(agg.items()):
        rates[k] = {"n": n, "over_target": over, "oracle_undecided": skipped, "worst_lattice_steps": worst if worst < 10**9 else "nan/inf"}
        gen = k.split("/")[-1]
        if gen in ("G1", "G2") and n:
            lb = clopper_pearson_lower(over, n)
            rates[k]["rate"] = over / n
            if lb > 0.001:
                fn, fbs = k.split("/")[0], k.split("/")[1]
                ctx.violation("%s/%s/target-rate/%s" % (fn, fbs, gen), "%d of %d %s inputs exceed the design target of %d ULP (lower confidence bound %.4f > 0.1%%)" % (over, n, gen, TARGET[fn], lb), {"function": fn, "cell": k, "over": over, "n": n})
    ctx.note("cells", rates)
