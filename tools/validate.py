#!/usr/bin/env python3
import json, sys, os, glob
sys.path.insert(0, '/verif/.deps')
import jsonschema
V = '/verif'
jsonschema.validate(json.load(open(V + '/MANIFEST.json')), json.load(open('/root/.vp/MANIFEST.schema.json')))
es = json.load(open('/root/.vp/EVIDENCE.schema.json'))
for p in sorted(glob.glob(V + '/evidence/*.json')):
    jsonschema.validate(json.load(open(p)), es)
    print('ok', os.path.basename(p))
print('manifest ok')
