"""Table of registered checks (edited as checks are built)."""


def register(check, na):
    check(
        "C14",
        "exhaustive float16 enumeration + seeded stratified pair/triple sampling against an exact lattice-index model",
        "Every finite float16 value is the start of k-th-neighbour, self and signed-zero checks in both flush modes; float16/32/64 pairs, sorted triples, complex pairs and lists are sampled (stratified by exponent gap/sign/mantissa shape) and compared with the lattice distance computed from bit patterns; ulp() identities are checked for all float16 and all binades of float32/64. Exploration: sampled for arbitrary pairs, exhaustive only for float16 neighbours.",
        "Trusts harness/flt.py (IEEE-754 model, self-tested against numpy in setup) and numpy.nextafter; tie direction of the flush collapse is read from the code (only consistency asserted).",
        "DESIGN.md 2/C14",
    )

    check(
        "C13",
        "exhaustive float16 enumeration + structured float32/64 enumeration + Hypothesis-generated wide multiprecision values; round-trip and exact-value oracles",
        "Every float16 bit pattern and every binade x structured/random mantissas of float32/64 is pushed through fraction, binary-string (independent parser), mpf, expansion, multiword and dispatcher conversions and back; exact value of each intermediate is compared with the value decoded from the bit pattern; Hypothesis generates 1..6-word multiprecision values for expansion/multiword round trips. Exhaustive for float16, exploration elsewhere.",
        "Trusts harness/flt.py and the meaning of mpmath's _mpf_ tuple; mpf contexts narrower than the float's precision are outside the domain.",
        "DESIGN.md 2/C13",
    )

    check(
        "C15",
        "Hypothesis-generated multiprecision values and backend option combinations against exact round-to-nearest-even in rational arithmetic",
        "mpf2float is driven with generated mantissas (p..200 bits: random, exact ties, ties +-1, all-ones) at generated exponents with extra mass on the overflow edge, the normal/subnormal edge and half the smallest subnormal, and compared with exact RN; the backend plumbing is driven over flush_subnormals x extra_prec x extra_prec_multiplier x scalar/array/complex with functions whose exact value is rational (identity, negation, x/2, x*x) or decided by integer square root. Exploration (generated cases, shrunk on failure).",
        "Trusts harness/flt.py RN; double rounding within 2^-(extra-1) ulp of a midpoint is accepted when extra working precision is requested; nothing is claimed for subnormal results of mpf2float.",
        "DESIGN.md 2/C15",
    )
