"""Table of registered checks (edited as checks are built)."""


def register(check, na):
    check(
        "C14",
        "exhaustive float16 enumeration + seeded stratified pair/triple sampling against an exact lattice-index model",
        "Every finite float16 value is the start of k-th-neighbour, self and signed-zero checks in both flush modes; float16/32/64 pairs, sorted triples, complex pairs and lists are sampled (stratified by exponent gap/sign/mantissa shape) and compared with the lattice distance computed from bit patterns; ulp() identities are checked for all float16 and all binades of float32/64. Exploration: sampled for arbitrary pairs, exhaustive only for float16 neighbours.",
        "Trusts harness/flt.py (IEEE-754 model, self-tested against numpy in setup) and numpy.nextafter; tie direction of the flush collapse is read from the code (only consistency asserted).",
        "DESIGN.md 2/C14",
    )
