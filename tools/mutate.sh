#!/bin/bash
# usage: tools/mutate.sh <prop> <file-relative-to-repo> <old> <new> [tier]   -- applies a textual mutation in a scratch worktree and runs the check against it
set -e
WT=${WT:-/tmp/wt-mut}
if [ ! -d $WT ]; then git -C /repo worktree add -q --detach $WT HEAD; fi
cd $WT && git checkout -q --detach $(git -C /repo rev-parse HEAD) && git checkout -q -- .
/venv/bin/python - "$2" "$3" "$4" <<'PY'
import sys
f,old,new=sys.argv[1:4]
s=open(f).read()
assert s.count(old)>=1,("pattern not found",old)
open(f,'w').write(s.replace(old,new,1))
PY
cd /verif
VERIF_REPO=$WT timeout 1500 ./check $1 --tier ${5:-quick} 2>&1 | grep -v NOTIMPL | grep "^  \[\|HARNESS\|tier=\|Error" | cut -c1-260
cd $WT && git checkout -q -- .
