#!/bin/bash
# usage: tools/seed_regression.sh [name-prefix]  -- applies every stored seeded change to a scratch worktree of /repo HEAD
# and runs the property's quick check against it; prints one line per seed (CAUGHT = exit 1 with a VIOLATION line).
cd "$(dirname "$0")/.."
WT=${WT:-/tmp/wt-mut}
if [ ! -d $WT ]; then git -C /repo worktree add -q --detach $WT HEAD; fi
(cd $WT && git checkout -q --detach $(git -C /repo rev-parse HEAD) && git checkout -q -- . && git clean -fdq)
for d in seeded/${1:-}*/; do
  n=$(basename $d); prop=$(echo $n | cut -c1-3)
  if ! (cd $WT && git apply /verif/$d/patch.diff 2>/dev/null); then echo "$n PATCH-DOES-NOT-APPLY"; continue; fi
  out=$(VERIF_REPO=$WT timeout 3000 ./check $prop --tier quick 2>&1); rc=$?
  cls=$(echo "$out" | grep "^  \[" | head -2 | cut -c1-110 | tr '\n' ' ')
  expect=$(/venv/bin/python -c "import json,sys; print(json.load(open('/verif/$d/meta.json')).get('detected_by_check',''))" 2>/dev/null)
  if [ $rc -eq 1 ] && echo "$out" | grep -q "^VIOLATION"; then echo "$n CAUGHT $cls"; elif [ "$expect" = "false" ] || [ "${expect#no}" != "$expect" ]; then echo "$n NOT-REPORTED-BY-DESIGN rc=$rc (see meta.json)"; else echo "$n MISSED rc=$rc"; fi
  (cd $WT && git checkout -q -- . && git clean -fdq)
done
