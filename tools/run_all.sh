#!/bin/bash
# usage: tools/run_all.sh <seed> [tier]  -- runs every registered check once, prints one line per check
cd "$(dirname "$0")/.."
SEED=${1:-1}; TIER=${2:-quick}
for c in C01 C02 C03 C04 C05 C06 C07 C08 C09 C10 C11 C12 C13 C14 C15 C16 C17 C18 C19; do
  out=$(VERIF_SEED=$SEED ./check $c --tier $TIER 2>&1); rc=$?
  echo "$c rc=$rc $(echo "$out" | grep "tier=" | tail -1 | cut -c1-120)"
  if [ $rc -ne 0 ]; then echo "$out" | grep "^  \[\|HARNESS\|Error" | head -8 | cut -c1-300; fi
done
