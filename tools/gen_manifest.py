#!/usr/bin/env python3
"""Regenerate /verif/MANIFEST.json from the table below (keeps the manifest valid at all times)."""
import json
import os
import sys

VERIF = os.path.dirname(os.path.dirname(os.path.abspath(__file__)))

BASELINE = "cd /repo && /venv/bin/python -m pytest -ra -q -p no:cacheprovider --timeout=900 --continue-on-collection-errors"

# id -> (technique, level text, level note, design ref)
CHECKS = {}
NOT_APPLICABLE = {}


def check(pid, technique, text, note, ref):
    CHECKS[pid] = (technique, text, note, ref)


sys.path.insert(0, os.path.join(VERIF, "tools"))
from manifest_table import register  # noqa: E402

register(check, NOT_APPLICABLE)

props = [json.loads(l)["id"] for l in open(os.path.join(VERIF, "properties.jsonl"))]
checks = []
for pid in props:
    if pid in CHECKS:
        technique, text, note, ref = CHECKS[pid]
        checks.append(
            {
                "property_id": pid,
                "quick_cmd": "./check %s --tier quick" % pid,
                "thorough_cmd": "./check %s --tier thorough" % pid,
                "evidence_file": "evidence/%s.json" % pid,
                "replay_cmd_template": "./check %s --replay {path}" % pid,
                "engine": "pbt-runner",
                "level_claimed": {"category": "exploration", "text": text, "design_ref": ref},
                "level_note": note,
                "technique": technique,
            }
        )
na = []
for pid in props:
    if pid not in CHECKS:
        na.append({"property_id": pid, "reason": NOT_APPLICABLE.get(pid, "check not built yet in this session (planned; see DESIGN.md section 2)")})

manifest = {
    "version": 1,
    "setup_cmd": "./setup.sh",
    "hooks": {
        "guard": "PEARU_FUNCTIONAL_ALGORITHMS_VERIF",
        "enable": "no hooks are needed: checks import functional_algorithms from /repo's working tree (PYTHONPATH=/repo); the guard variable is reserved and exported by ./check but no code in /repo reads it",
        "baseline_off_cmd": BASELINE,
        "source_commits": [],
        "add_only": True,
    },
    "engines": [
        {
            "name": "pbt-runner",
            "path": "check",
            "serves_properties": sorted(CHECKS),
            "kind_free_text": "property-based testing / fuzzing runner: Hypothesis strategies and state machines, seeded bulk samplers, exhaustive enumeration of finite float formats, error-guided search; exact oracles in harness/",
        }
    ],
    "checks": checks,
    "not_applicable": na,
    "notes": "All checks: ./check <id> --tier quick|thorough, VERIF_SEED honoured, exit 0/1/2 (2 = harness error, never a violation). Known findings: known_findings.json. Fix commits in /repo start with 'fix:'.",
}
with open(os.path.join(VERIF, "MANIFEST.json"), "w") as fh:
    json.dump(manifest, fh, indent=1)
    fh.write("\n")
print("MANIFEST.json written: %d checks, %d not_applicable" % (len(checks), len(na)))
