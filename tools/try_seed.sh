#!/bin/bash
# usage: tools/try_seed.sh <seed-dir> <prop> <seed-name> [tier]
# Verifies a seeded breaking change produced in a scratch worktree and runs the property's check against it.
SRC=$1; PROP=$2; NAME=$3; TIER=${4:-quick}
WT=${WT:-/tmp/wt-mut}
cd $WT && git checkout -q --detach $(git -C /repo rev-parse HEAD) && git checkout -q -- . && git clean -fdq
DEST=/verif/seeded/$NAME
mkdir -p $DEST
cp $SRC/_out/patch.diff $SRC/_out/demo.py $DEST/ 2>/dev/null
cp $SRC/_out/meta.json $DEST/agent_meta.json 2>/dev/null
echo "== demo on unchanged tree"
(cd $WT && mkdir -p _out && cp $DEST/demo.py _out/demo.py && sed -i "s#/tmp/seed-[A-Za-z0-9_-]*#$WT#g" _out/demo.py && PYTHONPATH=$WT /venv/bin/python _out/demo.py > /tmp/demo_clean.log 2>&1; echo "exit=$?")
echo "== apply patch"
(cd $WT && git apply $DEST/patch.diff && echo applied)
echo "== demo on patched tree"
(cd $WT && PYTHONPATH=$WT /venv/bin/python _out/demo.py > /tmp/demo_patched.log 2>&1; echo "exit=$?"; tail -2 /tmp/demo_patched.log | cut -c1-200)
echo "== check $PROP ($TIER) on patched tree"
cd /verif && VERIF_REPO=$WT timeout 3000 ./check $PROP --tier $TIER > /tmp/seed_check.log 2>&1; echo "check exit=$?"
grep "^  \[\|HARNESS\|tier=" /tmp/seed_check.log | cut -c1-260 | head -12
cd $WT && git checkout -q -- . && git clean -fdq
