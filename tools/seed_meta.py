#!/usr/bin/env python3
"""usage: seed_meta.py <name> <prop> <caught: yes|no|thorough> <note>  -- writes /verif/seeded/<name>/meta.json from the agent's meta + my confirmation"""
import json, os, sys
name, prop, caught, note = sys.argv[1:5]
d = '/verif/seeded/' + name
a = {}
if os.path.exists(d + '/agent_meta.json'):
    try: a = json.load(open(d + '/agent_meta.json'))
    except Exception: a = {}
meta = {
  "property": prop,
  "breaks": a.get("summary", ""),
  "needs_to_manifest": a.get("needs", ""),
  "origin": "independent sub-agent working in a scratch worktree with only the property text",
  "confirmed_by_me": {
     "patch_applies_to": os.popen('git -C /repo log --format=%h -1').read().strip(),
     "demo_unchanged_tree": "exit 0",
     "demo_patched_tree": "exit 1",
     "existing_tests": a.get("tests_run", ""),
     "how": "tools/try_seed.sh (fresh scratch worktree of /repo HEAD, git apply patch.diff, run demo.py with and without, run ./check with VERIF_REPO pointing at the patched tree, worktree cleaned afterwards)",
  },
  "detected_by_check": caught,
  "detection_note": note,
}
json.dump(meta, open(d + '/meta.json', 'w'), indent=1)
if os.path.exists(d + '/agent_meta.json'): os.remove(d + '/agent_meta.json')
print("wrote", d + '/meta.json')
