#!/bin/bash
# Offline setup: third-party deps from the local wheelhouse, self-test of the exact float model.
set -e
cd "$(dirname "$0")"
export PIP_NO_INDEX=1
W=/opt/veriftools/wheels
/venv/bin/python -c "import hypothesis" 2>/dev/null || /venv/bin/pip install -q --no-index --find-links $W hypothesis
mkdir -p .deps .build
/venv/bin/python -c "import sys; sys.path.insert(0,'.deps'); import jsonschema" 2>/dev/null || /venv/bin/pip install -q --no-index --find-links $W --target .deps jsonschema || true
/venv/bin/python -c "import sys; sys.path.insert(0,'.deps'); import atheris" 2>/dev/null || /venv/bin/pip install -q --no-index --find-links $W --target .deps atheris || true
PYTHONPATH=/verif /venv/bin/python -m harness.flt
echo "setup ok"
