"""Vectorised interpreter of expression graphs over numpy arrays with the per-node semantics of the NumPy target
(Python max/min semantics, numpy.where select, every constant in the dtype of its like operand), plus the expansion
modifier that replaces complex / non-native sub-operations by the package's own definitions.
Walks Expr.kind / Expr.operands only."""

import warnings

import numpy as np

warnings.filterwarnings("ignore")

UP = {np.dtype(np.float16): np.float32, np.dtype(np.float32): np.float64, np.dtype(np.float64): np.longdouble, np.dtype(np.complex64): np.complex128}
DOWN = {np.dtype(np.float32): np.float16, np.dtype(np.float64): np.float32, np.dtype(np.longdouble): np.float64, np.dtype(np.complex128): np.complex64}


class Unsupported(Exception):
    pass


def is_expr(o):
    return hasattr(o, "kind") and hasattr(o, "operands")


class NpVec:
    def __init__(self, env):
        """env: symbol name -> numpy array (all of the same length)"""
        self.env = env
        self.memo = {}
        self.n = len(next(iter(env.values()))) if env else 1

    def eval(self, e):
        k = id(e)
        if k not in self.memo:
            with np.errstate(all="ignore"):
                self.memo[k] = self._eval(e)
        return self.memo[k]

    def const(self, value, like):
        lv = self.eval(like)
        dt = lv.dtype
        if is_expr(value):
            raise Unsupported("alt constant")
        if isinstance(value, str):
            ft = dt
            if dt.kind == "c":
                ft = np.dtype(np.float32 if dt == np.complex64 else np.float64)
            if ft.kind != "f":
                raise Unsupported("named constant of %s" % dt)
            fi = np.finfo(ft)
            t = {"largest": fi.max, "smallest": fi.smallest_normal, "smallest_subnormal": fi.smallest_subnormal, "eps": fi.eps, "posinf": np.inf, "neginf": -np.inf, "pi": np.pi, "nan": np.nan, "undefined": np.nan}
            if value not in t:
                raise Unsupported(value)
            return np.full(self.n, t[value], dtype=ft).astype(dt)
        if dt.kind == "b":
            return np.full(self.n, bool(value), dtype=bool)
        return np.full(self.n, dt.type(value), dtype=dt)

    def _eval(self, e):
        kind, ops = e.kind, e.operands
        if kind == "symbol":
            if ops[0] in self.env:
                return self.env[ops[0]]
            tn = str(ops[1])
            from .dag import NP_TYPES

            if str(ops[0]).startswith("_") and tn in NP_TYPES:
                return np.zeros(self.n, dtype=NP_TYPES[tn])
            raise Unsupported("free symbol %s" % ops[0])
        if kind == "constant":
            return self.const(ops[0], ops[1])
        if kind == "apply":
            return self.eval(ops[-1])
        if kind == "list":
            return [self.eval(o) for o in ops]
        if kind == "item":
            return self.eval(ops[0])[int(np.asarray(self.eval(ops[1])).ravel()[0])]
        v = [self.eval(o) for o in ops]
        return self.apply(kind, v)

    def apply(self, kind, v):
        a = v[0]
        b = v[1] if len(v) > 1 else None
        if kind == "add":
            return a + b
        if kind == "subtract":
            return a - b
        if kind == "multiply":
            return a * b
        if kind == "divide":
            return a / b
        if kind == "negative":
            return -a
        if kind == "positive":
            return +a
        if kind == "absolute":
            return np.abs(a)
        if kind == "sign":
            return np.sign(a)
        if kind == "sqrt":
            return np.sqrt(a)
        if kind == "square":
            return np.square(a)
        if kind == "maximum":
            # Python max(a, b): b if b > a else a
            dt = np.result_type(a, b)
            return np.where(b > a, b.astype(dt), a.astype(dt))
        if kind == "minimum":
            dt = np.result_type(a, b)
            return np.where(b < a, b.astype(dt), a.astype(dt))
        if kind == "select":
            return np.where(a, b, v[2])
        if kind == "lt":
            return a < b
        if kind == "le":
            return a <= b
        if kind == "gt":
            return a > b
        if kind == "ge":
            return a >= b
        if kind == "eq":
            return a == b
        if kind == "ne":
            return a != b
        if kind == "logical_and":
            return np.logical_and(a, b)
        if kind == "logical_or":
            return np.logical_or(a, b)
        if kind == "logical_xor":
            return np.logical_xor(a, b)
        if kind == "logical_not":
            return np.logical_not(a)
        if kind == "upcast":
            return a.astype(UP[a.dtype])
        if kind == "downcast":
            return a.astype(DOWN[a.dtype])
        if kind == "complex":
            dt = np.result_type(a, b)
            ct = np.complex64 if dt == np.float32 else np.complex128
            z = np.empty(len(a), dtype=ct)
            z.real = a
            z.imag = b
            return z
        if kind == "real":
            return np.ascontiguousarray(a.real)
        if kind == "imag":
            return np.ascontiguousarray(a.imag)
        if kind == "conjugate":
            return np.conjugate(a)
        if kind == "is_finite":
            return np.isfinite(a)
        f1 = {"exp": np.exp, "expm1": np.expm1, "exp2": np.exp2, "log": np.log, "log1p": np.log1p, "log2": np.log2, "log10": np.log10, "sin": np.sin, "cos": np.cos, "tan": np.tan, "sinh": np.sinh, "cosh": np.cosh, "tanh": np.tanh, "asin": np.arcsin, "acos": np.arccos, "atan": np.arctan, "asinh": np.arcsinh, "acosh": np.arccosh, "atanh": np.arctanh, "floor": np.floor, "ceil": np.ceil, "truncate": np.trunc}.get(kind)
        if f1 is not None:
            return f1(a)
        f2 = {"atan2": np.arctan2, "hypot": np.hypot, "copysign": np.copysign, "nextafter": np.nextafter}.get(kind)
        if f2 is not None:
            return f2(a, b)
        if kind == "pow":
            return a**b
        raise Unsupported(kind)


class Expander:
    """rewrite modifier: replace hypot, square, asin_acos_kernel and every operation with a complex operand (other than
    complex/real/imag/select and comparisons) by the package's own definition in functional_algorithms.algorithms"""

    KEEP = {"symbol", "constant", "apply", "complex", "real", "imag", "select", "list", "item", "eq", "ne"}
    ALWAYS = {"hypot", "square", "asin_acos_kernel"}

    def __init__(self):
        self.expanded = {}
        self.left_native = {}

    def __rewrite_modifier__(self, expr):
        import functional_algorithms as fa

        k = expr.kind
        if k in self.KEEP:
            return expr
        cx = False
        for o in expr.operands:
            if is_expr(o):
                try:
                    cx = cx or bool(o.is_complex)
                except Exception:
                    pass
        if not (k in self.ALWAYS or cx):
            return expr
        func = getattr(fa.algorithms, k, None)
        if func is None:
            self.left_native[k] = self.left_native.get(k, 0) + 1
            return expr
        try:
            result = expr.context.call(func, expr.operands)
        except NotImplementedError:
            self.left_native[k] = self.left_native.get(k, 0) + 1
            return expr
        if result is NotImplemented or not is_expr(result):
            self.left_native[k] = self.left_native.get(k, 0) + 1
            return expr
        self.expanded[k] = self.expanded.get(k, 0) + 1
        if result.key != expr.key:
            return result.rewrite(self, deep_first=True)
        return expr


_GRAPHS = {}


def expanded_graph(fname, dtype, nargs=1):
    """traced + expanded + rewritten graph of fa.algorithms.<fname> for the numpy dtype; cached"""
    key = (fname, np.dtype(dtype).name, nargs)
    if key in _GRAPHS:
        return _GRAPHS[key]
    import contextlib
    import io

    import functional_algorithms as fa

    ctx = fa.Context(paths=[fa.algorithms])
    func = getattr(fa.algorithms, fname)
    ex = Expander()
    with contextlib.redirect_stdout(io.StringIO()):
        g = ctx.trace(func, *([dtype] * nargs))
        g = g.rewrite(ex)
        g = g.rewrite(fa.targets.numpy, fa.rewrite)
    _GRAPHS[key] = (g, ex)
    return g, ex


def complex_nodes(g):
    """kinds of complex-valued nodes left in the graph body (for the evidence)"""
    seen, out = set(), {}

    def walk(e):
        if not is_expr(e) or id(e) in seen:
            return
        seen.add(id(e))
        for o in e.operands:
            walk(o)
        try:
            if e.kind not in ("list", "apply") and e.is_complex:
                out[e.kind] = out.get(e.kind, 0) + 1
        except Exception:
            pass

    walk(g.operands[-1])
    return out


def run_graph(g, arrays):
    args = g.operands[1:-1]
    env = {a.operands[0]: np.ascontiguousarray(x) for a, x in zip(args, arrays)}
    return NpVec(env).eval(g.operands[-1])
