"""Hypothesis strategies producing *program specs* (plain JSON-able lists) for well-typed expression DAGs, and a builder
that turns a spec into expressions of a fresh functional_algorithms Context.

spec = {"syms": [[name, typename], ...], "nodes": [node, ...], "root": index}
node = ["sym", i] | ["const", [vtype, v], like] | ["named", name, like] | [kind, a, b, ...] | ["list", a, b, ...]
       | ["item", list_node, k]         (all operand references are indices of earlier nodes)
Sorts used during generation: 'f16','f32','f64','f' (untyped float), 'b' (boolean), 'c64','c128', 'L' (list).
"""

from hypothesis import strategies as st

UNARY_REAL = ["negative", "positive", "absolute", "sign", "sqrt", "square"]
BINARY_REAL = ["add", "subtract", "multiply", "divide", "minimum", "maximum"]
COMPARE = ["lt", "le", "gt", "ge", "eq", "ne"]
LOGICAL2 = ["logical_and", "logical_or", "logical_xor"]
NAMED = ["largest", "smallest", "eps", "posinf", "neginf", "smallest_subnormal"]

UPSORT = {"f16": "f32", "f32": "f64"}
DOWNSORT = {"f64": "f32", "f32": "f16"}
TYPENAME = {"f16": "float16", "f32": "float32", "f64": "float64", "f": "float", "c64": "complex64", "c128": "complex128", "c": "complex", "b": "boolean"}

CONSTS = [
    ["int", 0],
    ["int", 1],
    ["int", -1],
    ["int", 2],
    ["int", 3],
    ["float", "0x0p+0"],
    ["float", "0x1p+0"],
    ["float", "0x1p-1"],
    ["float", "0x1.8p+0"],
    ["float", "-0x1p+1"],
    ["float", "0x1.999999999999ap-4"],
    ["float", "0x1.5555555555555p-2"],
    ["float", "0x1p+100"],
]


def decode_const(v):
    t, x = v
    if t == "int":
        return int(x)
    if t == "bool":
        return bool(x)
    if t == "float":
        return float.fromhex(x)
    if t.startswith("np."):
        import numpy as np

        if t[3:].startswith("int"):
            return getattr(np, t[3:])(int(x))
        return getattr(np, t[3:])(float.fromhex(x))
    raise ValueError(v)


@st.composite
def programs(
    draw,
    main_sorts=("f32", "f64", "f"),
    max_nodes=24,
    kinds=None,
    allow_cast=True,
    allow_list=True,
    allow_named=True,
    named=NAMED,
    allow_xor=True,
    mixed=False,
    negzero=False,
    complex_ok=False,
    np_consts=False,
    extra_unary=(),
    extra_binary=(),
    root_sorts=None,
    complex_sorts=("c64", "c128"),
    extra_pred=(),
    np_int_consts=False,
):
    T = draw(st.sampled_from(list(main_sorts)))
    nsym = draw(st.integers(1, 3))
    syms = []
    nodes = []
    sorts = []  # sort per node

    def add(node, sort):
        nodes.append(node)
        sorts.append(sort)
        return len(nodes) - 1

    for i in range(nsym):
        s = T
        if mixed and i > 0:
            s = draw(st.sampled_from(list(main_sorts)))
        syms.append(["xyz"[i], TYPENAME[s]])
        add(["sym", i], s)
    if complex_ok and draw(st.booleans()):
        cs = draw(st.sampled_from(list(complex_sorts)))
        syms.append(["w", TYPENAME[cs]])
        add(["sym", len(syms) - 1], cs)

    n = draw(st.integers(2, max_nodes))

    def pick(pred, recent_bias=True):
        idx = [i for i, s in enumerate(sorts) if pred(s)]
        if not idx:
            return None
        if recent_bias and len(idx) > 3 and draw(st.booleans()):
            idx = idx[-3:]
        return draw(st.sampled_from(idx))

    def is_real(s):
        return s in ("f16", "f32", "f64", "f")

    allowed = set(kinds) if kinds is not None else None

    def ok(k):
        return allowed is None or k in allowed

    for _ in range(n):
        choice = draw(
            st.sampled_from(
                ["unary", "unary", "binary", "binary", "binary", "compare", "compare", "logical", "not", "select", "select", "const", "const", "named", "cast", "list", "nested-select", "signshape"] + (["complex"] * 5 if complex_ok else []) + (["pred"] * 2 if extra_pred else [])
            )
        )
        if choice == "unary":
            a = pick(is_real)
            k = draw(st.sampled_from(UNARY_REAL + list(extra_unary)))
            if a is not None and ok(k):
                add([k, a], sorts[a])
        elif choice == "binary":
            a = pick(is_real)
            if a is None:
                continue
            b = pick((lambda s: is_real(s)) if mixed else (lambda s: s == sorts[a]))
            k = draw(st.sampled_from(BINARY_REAL + list(extra_binary)))
            if b is not None and ok(k):
                if draw(st.integers(0, 5)) == 0:
                    b = a  # x op x shapes
                so = sorts[a]
                if mixed and sorts[b] != so:
                    order = ["f16", "f32", "f", "f64"]
                    so = max(sorts[a], sorts[b], key=order.index)
                    if "f" in (sorts[a], sorts[b]) and so != "f64":
                        so = "f" if {sorts[a], sorts[b]} == {"f"} else so
                add([k, a, b], so)
        elif choice == "pred":
            # unary predicates (is_finite, ...) of a real operand
            a = pick(is_real)
            k = draw(st.sampled_from(list(extra_pred)))
            if a is not None and ok(k):
                add([k, a], "b")
        elif choice == "compare":
            a = pick(is_real)
            if a is None:
                continue
            b = pick(lambda s: s == sorts[a])
            k = draw(st.sampled_from(COMPARE))
            if b is not None and ok(k):
                add([k, a, b], "b")
        elif choice == "logical":
            a = pick(lambda s: s == "b")
            b = pick(lambda s: s == "b")
            k = draw(st.sampled_from(LOGICAL2 if allow_xor else LOGICAL2[:2]))
            if a is not None and b is not None and ok(k):
                add([k, a, b], "b")
        elif choice == "not":
            a = pick(lambda s: s == "b")
            if a is not None and ok("logical_not"):
                add(["logical_not", a], "b")
        elif choice == "select":
            c = pick(lambda s: s == "b")
            a = pick(is_real)
            if c is None or a is None or not ok("select"):
                continue
            b = pick((lambda s: is_real(s)) if mixed else (lambda s: s == sorts[a]))
            if b is not None:
                so = sorts[a]
                if sorts[b] != so:
                    order = ["f16", "f32", "f", "f64"]
                    so = max(sorts[a], sorts[b], key=order.index)
                add(["select", c, a, b], so)
        elif choice == "nested-select":
            # select(c1, select(c2, a, b), b) / select(c1, a, select(c2, a, b)): the shapes the select rules match
            c1 = pick(lambda s: s == "b")
            c2 = pick(lambda s: s == "b")
            a = pick(is_real)
            if c1 is None or c2 is None or a is None or not ok("select"):
                continue
            b = pick(lambda s: s == sorts[a])
            if b is None:
                continue
            inner = add(["select", c2, a, b], sorts[a])
            shape = draw(st.integers(0, 3))
            if shape == 0:
                add(["select", c1, inner, b], sorts[a])
            elif shape == 1:
                add(["select", c1, inner, a], sorts[a])
            elif shape == 2:
                add(["select", c1, a, inner], sorts[a])
            else:
                add(["select", c1, b, inner], sorts[a])
        elif choice == "const":
            like = pick(is_real)
            if like is None:
                continue
            v = draw(st.sampled_from(CONSTS))
            if negzero and draw(st.integers(0, 6)) == 0:
                v = ["float", "-0x0p+0"]
            if np_consts and draw(st.integers(0, 3)) == 0:
                v = ["np." + draw(st.sampled_from(["float32", "float64", "float16"])), draw(st.sampled_from(["0x1p+0", "0x1.8p+1", "0x1p-1"]))]
            if np_int_consts and draw(st.integers(0, 4)) == 0:
                # integer-valued constants given as numpy integer scalars (not subclasses of int)
                v = ["np." + draw(st.sampled_from(["int64", "int32"])), draw(st.sampled_from([0, 1, 2, 3, -1, 7]))]
            add(["const", v, like], sorts[like])
        elif choice == "named":
            like = pick(lambda s: s in ("f16", "f32", "f64") or (s == "f" and allow_named == "all"))
            if like is None or not allow_named:
                continue
            add(["named", draw(st.sampled_from(list(named))), like], sorts[like])
        elif choice == "cast":
            if not allow_cast:
                continue
            a = pick(lambda s: s in ("f32", "f64", "f16"))
            if a is None:
                continue
            s = sorts[a]
            d = draw(st.sampled_from(["up-down", "down-up", "up", "down"]))
            if d in ("up-down", "up") and s in UPSORT and ok("upcast"):
                u = add(["upcast", a], UPSORT[s])
                if d == "up-down":
                    # some arithmetic in the wider type, then back
                    if draw(st.booleans()):
                        u = add([draw(st.sampled_from(["square", "negative", "absolute"])), u], UPSORT[s])
                    add(["downcast", u], s)
            elif d in ("down-up", "down") and s in DOWNSORT and DOWNSORT[s] != "f16" and ok("downcast"):
                u = add(["downcast", a], DOWNSORT[s])
                if d == "down-up":
                    add(["upcast", u], s)
        elif choice == "list":
            if not allow_list:
                continue
            a = pick(is_real)
            if a is None:
                continue
            b = pick(lambda s: s == sorts[a])
            c = pick(lambda s: s == sorts[a])
            items = [x for x in (a, b, c) if x is not None][: draw(st.integers(1, 3))]
            L = add(["list"] + items, "L")
            k = draw(st.integers(0, len(items) - 1))
            add(["item", L, k], sorts[a])
        elif choice == "complex" and complex_ok:
            def is_c(s):
                return s in ("c64", "c128", "c")

            c = pick(is_c)
            op = draw(st.sampled_from(["real", "imag", "absolute", "negative", "conjugate", "arith", "arith", "make", "const", "named", "eqne", "select", "square"]))
            if op == "make":
                a = pick(lambda s: s in ("f32", "f64", "f"))
                if a is not None:
                    b = pick(lambda s: s == sorts[a])
                    add(["complex", a, b], {"f32": "c64", "f64": "c128", "f": "c"}[sorts[a]])
                continue
            if c is None:
                continue
            half = {"c64": "f32", "c128": "f64", "c": "f"}[sorts[c]]
            if op in ("real", "imag", "absolute"):
                add([op, c], half)
            elif op in ("negative", "conjugate", "square"):
                add([op, c], sorts[c])
            elif op == "arith":
                o = pick((lambda s: is_c(s) or is_real(s)) if mixed else (lambda s: s == sorts[c] or s == half))
                if o is not None:
                    k = draw(st.sampled_from(["add", "subtract", "multiply", "divide"]))
                    wide = sorts[c] == "c128" or sorts[o] in ("c128", "f64", "f")
                    args = [c, o] if draw(st.booleans()) else [o, c]
                    add([k] + args, "c" if sorts[c] == "c" else ("c128" if wide else "c64"))
            elif op == "const":
                add(["const", draw(st.sampled_from(CONSTS[:10])), c], sorts[c])
            elif op == "named":
                if allow_named:
                    add(["named", draw(st.sampled_from(list(named))), c], sorts[c])
            elif op == "eqne":
                o = pick(lambda s: s == sorts[c])
                if o is not None:
                    add([draw(st.sampled_from(["eq", "ne"])), c, o], "b")
            elif op == "select":
                b_ = pick(lambda s: s == "b")
                o = pick((lambda s: is_c(s) or is_real(s)) if mixed else (lambda s: s == sorts[c]))
                if b_ is not None and o is not None:
                    if sorts[o] == sorts[c]:
                        add(["select", b_, c, o], sorts[c])
                    else:
                        # branches of different kind / width (mixed programs): either order
                        wide = "c128" in (sorts[c], sorts[o]) or sorts[o] in ("f64", "f")
                        so = "c" if sorts[c] == "c" else ("c128" if wide else "c64")
                        add(["select", b_] + ([c, o] if draw(st.booleans()) else [o, c]), so)
        elif choice == "signshape":
            # deliberately sign-inferable shapes compared with each other / with 0 and 1
            a = pick(is_real)
            if a is None:
                continue
            s = sorts[a]
            shapes = []
            for _k in range(2):
                sh = draw(st.sampled_from(["abs", "square", "xx", "sqrtabs", "neg-abs", "neg-square", "abs+abs", "abs*square", "abs+1", "neg-abs-1"]))
                if sh == "abs":
                    i = add(["absolute", a], s)
                elif sh == "square":
                    i = add(["square", a], s)
                elif sh == "xx":
                    i = add(["multiply", a, a], s)
                elif sh == "sqrtabs":
                    i = add(["sqrt", add(["absolute", a], s)], s)
                elif sh == "neg-abs":
                    i = add(["negative", add(["absolute", a], s)], s)
                elif sh == "neg-square":
                    i = add(["negative", add(["square", a], s)], s)
                elif sh == "abs+abs":
                    b = pick(lambda t: t == s)
                    i = add(["add", add(["absolute", a], s), add(["absolute", b], s)], s)
                elif sh == "abs*square":
                    b = pick(lambda t: t == s)
                    i = add(["multiply", add(["absolute", a], s), add(["square", b], s)], s)
                elif sh == "abs+1":
                    i = add(["add", add(["absolute", a], s), add(["const", ["int", 1], a], s)], s)
                else:
                    i = add(["subtract", add(["negative", add(["absolute", a], s)], s), add(["const", ["int", 1], a], s)], s)
                shapes.append(i)
                a2 = pick(lambda t: t == s)
                a = a2 if a2 is not None else a
            other = shapes[1]
            if draw(st.integers(0, 2)) == 0:
                other = add(["const", draw(st.sampled_from([["int", 0], ["int", 1], ["float", "0x0p+0"]])), shapes[0]], s)
            elif allow_named and (s != "f" or allow_named == "all") and draw(st.integers(0, 2)) == 0:
                # a sign-known expression against a named constant (the rewriter has table rows for these too)
                other = add(["named", draw(st.sampled_from(list(named))), a], s)
            k = draw(st.sampled_from(COMPARE))
            if draw(st.booleans()):
                add([k, shapes[0], other], "b")
            else:
                add([k, other, shapes[0]], "b")
    # root: prefer a late node of a value sort
    want = root_sorts or (("f16", "f32", "f64", "f", "b") + (("c64", "c128", "c") if complex_ok else ()))
    cand = [i for i, s in enumerate(sorts) if s in want and i >= len(syms)]
    if not cand:
        cand = [i for i, s in enumerate(sorts) if s in want]
    root = draw(st.sampled_from(cand[-4:])) if cand else len(nodes) - 1
    return {"syms": syms, "nodes": nodes, "root": root}


def prune(spec):
    """Keep only nodes reachable from the root (renumbered); keeps the spec a pure function of itself."""
    nodes = spec["nodes"]
    need = set()

    def visit(i):
        if i in need:
            return
        need.add(i)
        nd = nodes[i]
        k = nd[0]
        if k == "sym":
            return
        if k in ("const", "named"):
            visit(nd[2])
        elif k == "item":
            visit(nd[1])
        else:
            for a in nd[1:]:
                visit(a)

    visit(spec["root"])
    order = sorted(need)
    ren = {old: new for new, old in enumerate(order)}
    out = []
    for i in order:
        nd = list(nodes[i])
        k = nd[0]
        if k == "sym":
            pass
        elif k in ("const", "named"):
            nd[2] = ren[nd[2]]
        elif k == "item":
            nd[1] = ren[nd[1]]
        else:
            nd[1:] = [ren[a] for a in nd[1:]]
        out.append(nd)
    return {"syms": spec["syms"], "nodes": out, "root": ren[spec["root"]]}


def build(spec, ctx=None, enable_alt=False, default_constant_type=None, refs=None, call_from=None):
    """Build the expressions of a spec in a fresh Context. Returns (ctx, list of exprs, root expr, symbol exprs).
    call_from=k: the nodes with index >= k are created inside a nested Context.call (as sub-algorithms are), so that
    their reference names carry a non-empty origin."""
    import functional_algorithms as fa

    if ctx is None:
        ctx = fa.Context(paths=[fa.algorithms], enable_alt=enable_alt, default_constant_type=default_constant_type)
    symexprs = [ctx.symbol(name, t) for name, t in spec["syms"]]
    ex = []
    if call_from is not None and 0 < call_from < len(spec["nodes"]):
        _build_nodes(ctx, spec, spec["nodes"][:call_from], ex, symexprs, refs, 0)

        def inner(ctx_):
            _build_nodes(ctx_, spec, spec["nodes"][call_from:], ex, symexprs, refs, call_from)
            return ex[-1]

        ctx.call(inner, ())
        return ctx, ex, ex[spec["root"]], symexprs
    _build_nodes(ctx, spec, spec["nodes"], ex, symexprs, refs, 0)
    return ctx, ex, ex[spec["root"]], symexprs


def _build_nodes(ctx, spec, nodes, ex, symexprs, refs, base):
    for off, nd in enumerate(nodes):
        k = nd[0]
        if k == "sym":
            e = symexprs[nd[1]]
        elif k == "const":
            e = ctx.constant(decode_const(nd[1]), ex[nd[2]])
        elif k == "named":
            e = ctx.constant(nd[1], ex[nd[2]])
        elif k == "list":
            e = ctx.list([ex[a] for a in nd[1:]])
        elif k == "item":
            e = ctx.item(ex[nd[1]], nd[2])
        else:
            e = getattr(ctx, k)(*[ex[a] for a in nd[1:]])
        ex.append(e)
        name = (refs or {}).get(str(base + off))
        if name is not None and e.kind not in ("symbol",):
            e.reference(name, force=True)


def features(spec):
    ks = [nd[0] for nd in spec["nodes"]]
    f = set()
    for k in ks:
        if k in COMPARE:
            f.add("compare")
        elif k in LOGICAL2 or k == "logical_not":
            f.add("logical")
        elif k in ("select",):
            f.add("select")
        elif k in ("upcast", "downcast"):
            f.add("cast")
        elif k in ("list", "item"):
            f.add("list")
        elif k == "named":
            f.add("named-constant")
        elif k == "const":
            f.add("numeric-constant")
        elif k in ("minimum", "maximum"):
            f.add("minmax")
        elif k in ("absolute", "square", "sqrt", "sign"):
            f.add("sign-shape")
    # sharing: a node used more than once
    uses = {}
    for nd in spec["nodes"]:
        if nd[0] in ("sym",):
            continue
        args = nd[1:] if nd[0] not in ("const", "named", "item") else ([nd[2]] if nd[0] != "item" else [nd[1]])
        for a in args:
            if isinstance(a, int):
                uses[a] = uses.get(a, 0) + 1
    if any(v > 1 and spec["nodes"][i][0] != "sym" for i, v in uses.items()):
        f.add("shared-subexpression")
    return f
