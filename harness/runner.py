"""Single entry point for all property checks.

    ./check Cxx [--tier quick|thorough] [--replay FILE]

Exit codes: 0 property held on everything explored (open known findings are printed as
KNOWN-FINDING lines), 1 violation (a line "VIOLATION property=<id> replay=<path>" is printed),
2 harness error / inconclusive (never a violation).
"""

import argparse
import hashlib
import importlib
import json
import multiprocessing
import os
import sys
import time
import traceback

VERIF = os.path.dirname(os.path.dirname(os.path.abspath(__file__)))
NCPU = int(os.environ.get("VERIF_NCPU", "16"))
MAX_SAMPLES = 12
DISTINCT_CAP = 3_000_000


def jsonable(o):
    import numpy as np
    from fractions import Fraction

    if isinstance(o, dict):
        return {str(k): jsonable(v) for k, v in o.items()}
    if isinstance(o, (list, tuple, set, frozenset)):
        return [jsonable(v) for v in o]
    if isinstance(o, (np.bool_,)):
        return bool(o)
    if isinstance(o, np.integer):
        return int(o)
    if isinstance(o, np.floating):
        return {"f": str(o.dtype), "hex": float(o).hex() if o.dtype != np.longdouble else repr(o), "repr": repr(float(o))}
    if isinstance(o, np.complexfloating):
        return {"c": str(o.dtype), "re": float(o.real).hex(), "im": float(o.imag).hex()}
    if isinstance(o, np.ndarray):
        return jsonable(o.tolist())
    if isinstance(o, float):
        return o if o == o and abs(o) != float("inf") else repr(o)
    if isinstance(o, Fraction):
        return "%d/%d" % (o.numerator, o.denominator)
    if isinstance(o, complex):
        return repr(o)
    if isinstance(o, (str, int, bool)) or o is None:
        return o
    if isinstance(o, bytes):
        return o.hex()
    return repr(o)


def stable_hash(o):
    return int.from_bytes(hashlib.blake2b(json.dumps(jsonable(o), sort_keys=True).encode(), digest_size=8).digest(), "little")


class Partial:
    """Accumulator usable in worker processes; merged into the run's Ctx."""

    def __init__(self):
        self.evaluations = 0
        self.nontrivial_hashes = set()
        self.nontrivial_exact = 0  # distinct by construction (enumerations)
        self.classes = {}
        self.samples = []
        self.violations = []  # dicts: cls, what, case
        self.skipped = {}
        self.notes = {}
        self.excluded_known = 0

    # ---- counting
    def count(self, n=1, cls=None):
        self.evaluations += int(n)
        if cls is not None:
            self.classes[cls] = self.classes.get(cls, 0) + int(n)

    def label(self, cls, n=1):
        self.classes[cls] = self.classes.get(cls, 0) + int(n)

    def nontrivial(self, key):
        if len(self.nontrivial_hashes) < DISTINCT_CAP:
            self.nontrivial_hashes.add(key if isinstance(key, int) else stable_hash(key))

    def nontrivial_many(self, keys):
        """keys: iterable/array of ints (e.g. bit patterns or hashes)"""
        room = DISTINCT_CAP - len(self.nontrivial_hashes)
        if room <= 0:
            return
        import numpy as np

        ks = np.unique(np.asarray(keys).astype(np.uint64))
        self.nontrivial_hashes.update(int(k) for k in ks[:room])

    def nontrivial_enumerated(self, n):
        self.nontrivial_exact += int(n)

    def sample(self, obj, force=False):
        if len(self.samples) < MAX_SAMPLES or force:
            self.samples.append(jsonable(obj))

    def skip(self, reason, n=1):
        self.skipped[reason] = self.skipped.get(reason, 0) + int(n)

    def note(self, k, v):
        self.notes[k] = jsonable(v)

    def violation(self, cls, what, case):
        """cls: narrow machine-checkable class of the failing case (string), case: JSON-able replay spec"""
        if len(self.violations) < 2000:
            self.violations.append({"cls": cls, "what": what, "case": jsonable(case)})
        else:
            self.notes["violations_truncated"] = True

    def merge(self, other):
        self.evaluations += other.evaluations
        room = DISTINCT_CAP - len(self.nontrivial_hashes)
        if room > 0:
            if len(other.nontrivial_hashes) <= room:
                self.nontrivial_hashes |= other.nontrivial_hashes
            else:
                for h in other.nontrivial_hashes:
                    if len(self.nontrivial_hashes) >= DISTINCT_CAP:
                        break
                    self.nontrivial_hashes.add(h)
        self.nontrivial_exact += other.nontrivial_exact
        for k, v in other.classes.items():
            self.classes[k] = self.classes.get(k, 0) + v
        for s in other.samples:
            if len(self.samples) < MAX_SAMPLES:
                self.samples.append(s)
        self.violations.extend(other.violations)
        for k, v in other.skipped.items():
            self.skipped[k] = self.skipped.get(k, 0) + v
        self.notes.update(other.notes)
        self.excluded_known += other.excluded_known


class Ctx(Partial):
    def __init__(self, prop, tier, seed, known):
        super().__init__()
        self.prop = prop
        self.tier = tier
        self.seed = seed
        self.quick = tier == "quick"
        self.known = known  # list of known-finding entries for this property
        self.rule = ""
        self.assumptions = []
        self.exhaustive = False

    def open_classes(self):
        return {k["class"] for k in self.known if k.get("status") == "open"}

    def rng(self, *stream):
        import numpy as np

        return np.random.Generator(np.random.PCG64(np.random.SeedSequence([self.seed, int(self.prop[1:])] + [int(s) for s in stream])))

    def pmap(self, func, tasks, procs=None, chunksize=1):
        """Run func(task) -> Partial in worker processes (fork) and merge results in task order."""
        tasks = list(tasks)
        procs = min(procs or NCPU, max(1, len(tasks)))
        if procs == 1:
            for t in tasks:
                self.merge(func(t))
            return
        mpctx = multiprocessing.get_context("fork")
        with mpctx.Pool(procs) as pool:
            for part in pool.imap(func, tasks, chunksize):
                self.merge(part)


def load_known(prop):
    path = os.path.join(VERIF, "known_findings.json")
    if not os.path.exists(path):
        return []
    with open(path) as fh:
        data = json.load(fh)
    return [e for e in data.get("findings", []) if e.get("property") == prop]


def write_evidence(ctx, wall, nviol, extra=None):
    cov = {
        "evaluations": int(ctx.evaluations),
        "distinct_nontrivial": int(len(ctx.nontrivial_hashes) + ctx.nontrivial_exact),
        "rule": ctx.rule,
        "samples": ctx.samples[:MAX_SAMPLES],
        "classes": dict(sorted(ctx.classes.items())),
        "skipped": ctx.skipped,
        "excluded_known": ctx.excluded_known,
        "exhaustive": bool(ctx.exhaustive),
        "distinct_cap": DISTINCT_CAP,
    }
    cov.update(ctx.notes)
    if extra:
        cov.update(extra)
    ev = {
        "property_id": ctx.prop,
        "tier": ctx.tier,
        "seed": int(ctx.seed),
        "level": "exploration",
        "coverage": cov,
        "assumptions": ctx.assumptions,
        "wall_s": round(wall, 2),
        "violations": int(nviol),
    }
    os.makedirs(os.path.join(VERIF, "evidence"), exist_ok=True)
    path = os.path.join(VERIF, "evidence", ctx.prop + ".json")
    tmp = path + ".tmp%d" % os.getpid()
    with open(tmp, "w") as fh:
        json.dump(ev, fh, indent=1, sort_keys=True)
        fh.write("\n")
    os.replace(tmp, path)
    return path


def save_replay(prop, v):
    d = os.path.join(VERIF, "replay", prop)
    os.makedirs(d, exist_ok=True)
    h = hashlib.sha1(json.dumps(v["case"], sort_keys=True).encode()).hexdigest()[:12]
    path = os.path.join(d, "viol-%s.json" % h)
    with open(path, "w") as fh:
        json.dump({"property": prop, "cls": v["cls"], "what": v["what"], "case": v["case"]}, fh, indent=1, sort_keys=True)
        fh.write("\n")
    return os.path.relpath(path, VERIF)


def main(argv=None):
    ap = argparse.ArgumentParser()
    ap.add_argument("prop")
    ap.add_argument("--tier", default=os.environ.get("VERIF_TIER", "quick"), choices=["quick", "thorough"])
    ap.add_argument("--replay", default=None)
    args = ap.parse_args(argv)
    prop = args.prop.upper()
    try:
        seed = int(os.environ.get("VERIF_SEED", "1") or "1")
    except ValueError:
        seed = 1
    t0 = time.time()
    try:
        mod = importlib.import_module("props." + prop.lower())
        known = load_known(prop)
        if args.replay:
            with open(args.replay) as fh:
                data = json.load(fh)
            case = data.get("case", data)
            res = mod.replay(case)
            if res:
                for r in res:
                    print("replay still fails: [%s] %s" % (r[0], r[1]))
                print("VIOLATION property=%s replay=%s" % (prop, args.replay))
                return 1
            print("replay passes: %s" % args.replay)
            return 0
        ctx = Ctx(prop, args.tier, seed, known)
        mod.run(ctx)
        # regression replays: every committed replay file of a *fixed* finding and of hand-written seeds must pass
        rdir = os.path.join(VERIF, "replay", prop, "regress")
        nreg = 0
        if os.path.isdir(rdir):
            for fn in sorted(os.listdir(rdir)):
                if fn.endswith(".json"):
                    with open(os.path.join(rdir, fn)) as fh:
                        data = json.load(fh)
                    nreg += 1
                    for r in mod.replay(data.get("case", data)) or []:
                        ctx.violation(r[0], "regression %s: %s" % (fn, r[1]), data.get("case", data))
        ctx.note("regression_replays", nreg)
        # known findings
        open_known = [k for k in known if k.get("status") == "open"]
        open_cls = {k["class"] for k in open_known}
        for k in open_known:
            still = None
            try:
                still = mod.replay(k["witness"])
            except Exception as e:  # a witness that raises is still failing in some way
                still = [(k["class"], "witness raised %r" % (e,))]
            if still:
                print("KNOWN-FINDING: property=%s %s [class %s]" % (prop, k["what"], k["class"]))
            else:
                print("note: known finding %s no longer reproduces (witness passes); update known_findings.json" % k.get("id"))
                ctx.note("known_not_reproduced_" + str(k.get("id")), True)
        real = []
        for v in ctx.violations:
            if v["cls"] in open_cls:
                ctx.excluded_known += 1
            else:
                real.append(v)
        wall = time.time() - t0
        # de-duplicate by class for reporting: one replay per class (smallest case text first)
        bycls = {}
        for v in real:
            bycls.setdefault(v["cls"], []).append(v)
        write_evidence(ctx, wall, len(real), {"violation_classes": {c: len(vs) for c, vs in bycls.items()}})
        print(
            "%s tier=%s seed=%d evaluations=%d distinct_nontrivial=%d excluded_known=%d wall=%.1fs"
            % (prop, args.tier, seed, ctx.evaluations, len(ctx.nontrivial_hashes) + ctx.nontrivial_exact, ctx.excluded_known, wall)
        )
        if real:
            for c, vs in sorted(bycls.items()):
                vs.sort(key=lambda v: len(json.dumps(v["case"])))
                v = vs[0]
                path = save_replay(prop, v)
                print("  [%s] x%d: %s" % (c, len(vs), v["what"]))
                print("VIOLATION property=%s replay=%s" % (prop, path))
            return 1
        return 0
    except KeyboardInterrupt:
        raise
    except Exception:
        traceback.print_exc()
        print("HARNESS-ERROR property=%s (exit 2: inconclusive, not a violation)" % prop)
        return 2


if __name__ == "__main__":
    sys.exit(main())
