"""Compile emitted C++ functions (cpp target) into a shared object and call them through ctypes on numpy arrays."""

import ctypes
import os
import shutil
import subprocess
import tempfile

import numpy as np

HEADER = """
#include <algorithm>
#include <cmath>
#include <complex>
#include <cstdint>
#include <limits>
"""

CTYPE = {"float32": "float", "float64": "double", "float": "double", "complex64": "std::complex<float>", "complex128": "std::complex<double>", "complex": "std::complex<double>", "boolean": "bool"}
NPTYPE = {"float32": np.float32, "float64": np.float64, "float": np.float64, "complex64": np.complex64, "complex128": np.complex128, "complex": np.complex128, "boolean": np.uint8}
# -frounding-math: libm calls on compile-time constants must reach the libm the reference calls (g++ would fold e.g.
# std::expm1(1.0f) with MPFR, 1 ULP away from the run-time expm1f; with -frounding-math inexact results are not folded)
FLAGS = ["-O1", "-ffp-contract=off", "-fno-fast-math", "-frounding-math", "-shared", "-fPIC", "-w"]


def build_dir():
    base = os.path.join(os.path.dirname(os.path.dirname(os.path.abspath(__file__))), ".build")
    os.makedirs(base, exist_ok=True)
    return tempfile.mkdtemp(prefix="cpp-%d-" % os.getpid(), dir=base)


def wrapper(name, argtypes, rtype):
    args = ", ".join("const %s* a%d" % (CTYPE[t], i) for i, t in enumerate(argtypes))
    call = ", ".join("a%d[k]" % i for i in range(len(argtypes)))
    rt = "unsigned char" if rtype == "boolean" else CTYPE[rtype]
    return 'extern "C" void wrap_%s(%s, %s* out, long n) { for (long k = 0; k < n; k++) out[k] = %s(%s); }\n' % (name, args, rt, name, call)


class Batch:
    """A set of emitted functions compiled together; compile errors are attributed by recompiling one by one."""

    def __init__(self):
        self.items = []  # (name, src, argtypes, rtype)
        self.lib = None
        self.dir = None
        self.errors = {}  # name -> compiler message

    def add(self, name, src, argtypes, rtype):
        self.items.append((name, src, argtypes, rtype))

    def _compile(self, items, tag):
        path = os.path.join(self.dir, "b%s.cpp" % tag)
        so = os.path.join(self.dir, "b%s.so" % tag)
        with open(path, "w") as fh:
            fh.write(HEADER)
            for name, src, at, rt in items:
                fh.write("\n" + src + "\n")
                fh.write(wrapper(name, at, rt))
        r = subprocess.run(["g++"] + FLAGS + [path, "-o", so], capture_output=True, text=True)
        if r.returncode != 0:
            return None, r.stderr
        return ctypes.CDLL(so), ""

    def compile(self):
        self.dir = build_dir()
        self.libs = {}
        lib, err = self._compile(self.items, "all")
        if lib is not None:
            for it in self.items:
                self.libs[it[0]] = lib
            return
        for i, it in enumerate(self.items):
            lib, err = self._compile([it], str(i))
            if lib is None:
                self.errors[it[0]] = err
            else:
                self.libs[it[0]] = lib

    def call(self, name, arrays):
        it = [x for x in self.items if x[0] == name][0]
        _, _, at, rt = it
        lib = self.libs[name]
        fn = getattr(lib, "wrap_" + name)
        n = len(arrays[0])
        ins = [np.ascontiguousarray(a, dtype=NPTYPE[t]) for a, t in zip(arrays, at)]
        out = np.zeros(n, dtype=NPTYPE[rt])
        fn.restype = None
        fn.argtypes = [ctypes.c_void_p] * (len(ins) + 1) + [ctypes.c_long]
        fn(*[a.ctypes.data for a in ins], out.ctypes.data, n)
        return out.astype(bool) if rt == "boolean" else out

    def close(self):
        self.libs = {}
        if self.dir and os.path.isdir(self.dir):
            shutil.rmtree(self.dir, ignore_errors=True)
