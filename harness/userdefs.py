"""User-style algorithm definitions for the determinism check (C09): shapes of local naming the shipped algorithms do
not contain — several local names bound to one expression (plain aliases and equal expressions built twice), many
locals, names that look like generated ones, a nested definition call.  `return ctx(expr)` turns local variable names
into reference names exactly as in functional_algorithms.algorithms."""


def shifted_hypot(ctx, x: float, y: float):
    ax = abs(x)
    ay = abs(y)
    mx = ctx.maximum(ax, ay)
    mn = ctx.minimum(ax, ay)
    big = mx
    scale = mx
    ratio = mn / mx
    q = mn / scale
    w = ratio * q + big
    shifted = x + 1
    xp1 = x + 1
    return ctx(w * w + ratio + shifted * xp1 + scale)


def many_locals(ctx, x: float, y: float):
    a = x * y
    b = x * y
    c = a + b
    t0 = c * c
    tmp = c * c
    _tmp = t0 + tmp
    result = _tmp - a
    r = result
    z = r * r
    zz = z
    u = ctx.select(x < y, zz, z)
    v = ctx.select(x < y, z, zz)
    s = u + v + r + result
    return ctx(s * s + s)


def complex_alias(ctx, z: complex):
    x = z.real
    re = z.real
    y = z.imag
    im = z.imag
    n = x * x + y * y
    norm = re * re + im * im
    h = ctx.sqrt(n)
    hh = ctx.sqrt(norm)
    return ctx(ctx.complex(h + hh + x, n * y + norm))


DEFS = {
    "shifted_hypot": (shifted_hypot, 2, "float"),
    "many_locals": (many_locals, 2, "float"),
    "complex_alias": (complex_alias, 1, "complex"),
}


def signatures(target_name, kind, nargs):
    if kind == "float":
        ts = {"cpp": ["float32", "float64"], "numpy": ["float32", "float64"]}.get(target_name, ["float"])
    else:
        ts = {"cpp": [], "numpy": ["complex64", "complex128"], "xla_client": ["complex"]}.get(target_name, ["complex"])
    return [tuple(":" + t for _ in range(nargs)) for t in ts]
