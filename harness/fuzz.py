#!/venv/bin/python
"""Coverage-guided campaigns (atheris / libFuzzer) over the same case strategies and oracles as the Hypothesis checks.

One process =  python -m harness.fuzz <Cxx> <variant> <outdir> <runs> <seed>

libFuzzer mutates a byte string, Hypothesis' `fuzz_one_input` decodes it into a case of the property's own strategy
(so every input is a well-formed case and replayable as JSON), the property's `replay(case)` is the oracle, and
coverage of the instrumented `functional_algorithms` package steers the mutation.  A violating case does not stop the
campaign: it is written to <outdir>/viol-*.json (one per class) and the search continues.  Statistics go to
<outdir>/stats.json every 200 executions (atheris never returns from Fuzz(), and atexit hooks do not run).

`campaign(ctx, prop, variants, runs, workers)` is what the property modules call from their thorough tier: it runs
several such processes with different libFuzzer seeds, merges their statistics into the evidence and reports the saved
cases through ctx.violation (so known-finding handling, replay files and exit codes are the runner's)."""

import hashlib
import importlib
import json
import os
import shutil
import subprocess
import sys
import tempfile
import time

VERIF = os.path.dirname(os.path.dirname(os.path.abspath(__file__)))


def _main(argv):
    prop, variant, out, runs, seed = argv[1], argv[2], argv[3], int(argv[4]), int(argv[5])
    os.makedirs(out, exist_ok=True)
    import atheris

    with atheris.instrument_imports(include=["functional_algorithms"]):
        import functional_algorithms  # noqa: F401
        import functional_algorithms.rewrite  # noqa: F401
        import functional_algorithms.targets  # noqa: F401
    from hypothesis import HealthCheck, given, settings

    mod = importlib.import_module("props." + prop.lower())
    strategy = mod.fuzz_strategy(variant)
    stats = {"execs": 0, "cases_with_violation": 0, "classes": {}, "errors": {}, "labels": {}, "t0": time.time()}
    seen = set()

    def dump():
        stats["wall"] = round(time.time() - stats["t0"], 1)
        tmp = os.path.join(out, "stats.json.tmp")
        with open(tmp, "w") as fh:
            json.dump(stats, fh)
        os.replace(tmp, os.path.join(out, "stats.json"))

    @given(strategy)
    @settings(database=None, deadline=None, suppress_health_check=list(HealthCheck))
    def one(case):
        stats["execs"] += 1
        try:
            bad = mod.replay(case)
        except Exception as e:  # an error of the harness: recorded, reported as inconclusive by the caller
            k = "%s: %s" % (type(e).__name__, str(e)[:200])
            stats["errors"][k] = stats["errors"].get(k, 0) + 1
            bad = []
        if bad:
            stats["cases_with_violation"] += 1
        for cls, what in bad:
            stats["classes"][cls] = stats["classes"].get(cls, 0) + 1
            if cls not in seen and len(seen) < 40:
                seen.add(cls)
                h = hashlib.blake2b(cls.encode(), digest_size=6).hexdigest()
                with open(os.path.join(out, "viol-%s.json" % h), "w") as fh:
                    json.dump({"cls": cls, "what": what, "case": case}, fh)
                dump()
        if hasattr(mod, "fuzz_label"):
            for lab in mod.fuzz_label(case):
                stats["labels"][lab] = stats["labels"].get(lab, 0) + 1
        if stats["execs"] % 50 == 0:
            dump()

    corpus = os.path.join(out, "corpus")
    os.makedirs(corpus, exist_ok=True)
    args = [argv[0], "-runs=%d" % runs, "-seed=%d" % (seed or 1), "-max_len=2048", "-len_control=0", "-timeout=120", "-rss_limit_mb=4096", "-print_final_stats=1", "-artifact_prefix=%s/" % out, corpus]
    atheris.Setup(args, one.hypothesis.fuzz_one_input)
    dump()
    atheris.Fuzz()


def campaign(ctx, prop, variants, runs, workers=16, timeout=7200):
    """Run `workers` fuzzing processes (variants are cycled), merge the outcome into ctx."""
    base = tempfile.mkdtemp(prefix="verif-fuzz-%s-" % prop)
    procs = []
    env = dict(os.environ)
    try:
        for w in range(workers):
            variant = variants[w % len(variants)]
            out = os.path.join(base, "w%d" % w)
            cmd = [sys.executable, "-m", "harness.fuzz", prop, variant, out, str(runs), str(ctx.seed * 1000 + w + 1)]
            log = open(os.path.join(base, "w%d.log" % w), "w")
            procs.append((w, variant, out, subprocess.Popen(cmd, cwd=VERIF, env=env, stdout=log, stderr=subprocess.STDOUT), log))
        t_end = time.time() + timeout
        for w, variant, out, p, log in procs:
            try:
                p.wait(timeout=max(1, t_end - time.time()))
            except subprocess.TimeoutExpired:
                p.kill()
                ctx.skip("fuzz-worker-stopped-at-time-budget")
            log.close()
        total = {"execs": 0, "errors": {}, "final_stats": []}
        for w, variant, out, p, log in procs:
            sp = os.path.join(out, "stats.json")
            if not os.path.exists(sp):
                tail = open(os.path.join(base, "w%d.log" % w)).read()[-1500:]
                raise RuntimeError("fuzz worker %d produced no statistics: %s" % (w, tail))
            st = json.load(open(sp))
            total["execs"] += st["execs"]
            ctx.count(st["execs"], "fuzz/%s/executions" % variant)
            for k, v in st["labels"].items():
                ctx.label("fuzz/%s/%s" % (variant, k), v)
            for k, v in st["errors"].items():
                total["errors"][k] = total["errors"].get(k, 0) + v
            cov = None
            for line in open(os.path.join(base, "w%d.log" % w), errors="replace"):
                if " cov: " in line:
                    try:
                        cov = int(line.split(" cov: ")[1].split()[0])
                    except Exception:
                        pass
            total["final_stats"].append({"worker": w, "variant": variant, "execs": st["execs"], "wall": st.get("wall"), "libfuzzer_cov": cov, "corpus_files": len(os.listdir(os.path.join(out, "corpus")))})
            for fn in sorted(os.listdir(out)):
                if fn.startswith("viol-"):
                    v = json.load(open(os.path.join(out, fn)))
                    ctx.violation(v["cls"], "[coverage-guided] " + v["what"], v["case"])
                elif fn.startswith(("crash-", "timeout-", "oom-")):
                    ctx.skip("libfuzzer-artifact/" + fn.split("-")[0])
        ctx.note("fuzz_campaign", total)
        if total["errors"]:
            ctx.note("fuzz_harness_errors", total["errors"])
        return total
    finally:
        shutil.rmtree(base, ignore_errors=True)


if __name__ == "__main__":
    _main(sys.argv)
