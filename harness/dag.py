"""Independent interpreters of expression graphs (walk Expr.kind / Expr.operands only).

NpRef  – numpy scalars of the declared dtype, node by node; records per-node dtype and NaN/overflow/underflow flags.
QRef   – exact rationals extended with +-inf; 'undefined' and 'undecided' outcomes.
PyRef  – Python float/int/bool/complex + math; exceptions are outcomes.
None of them imports anything from functional_algorithms (graphs are duck-typed).
"""

import math
import warnings
from fractions import Fraction

import numpy as np

warnings.filterwarnings("ignore")

NP_TYPES = {
    "float16": np.float16,
    "float32": np.float32,
    "float64": np.float64,
    "float": np.float64,
    "float128": np.longdouble,
    "complex64": np.complex64,
    "complex128": np.complex128,
    "complex": np.complex128,
    "boolean": np.bool_,
    "integer": np.int64,
    "integer64": np.int64,
    "integer32": np.int32,
}

UP = {np.float16: np.float32, np.float32: np.float64, np.float64: np.longdouble, np.complex64: np.complex128}
DOWN = {np.float32: np.float16, np.float64: np.float32, np.longdouble: np.float64, np.complex128: np.complex64}


class Undefined(Exception):
    """value not defined in exact arithmetic (x/0, sqrt(<0), inf-inf, 0*inf, ...)"""


class Undecided(Exception):
    """the exact interpreter cannot decide (irrational sqrt, pi, unsupported kind)"""


class Unsupported(Exception):
    pass


class Inexact(Exception):
    """strict exact evaluation met a value that the node's floating-point format cannot represent"""


def is_expr(o):
    return hasattr(o, "kind") and hasattr(o, "operands")


def type_name(t):
    """name of a functional_algorithms Type object (duck-typed): 'float32', 'boolean', ..."""
    return str(t)


class NpRef:
    """Evaluate a graph with numpy scalars. env: symbol name -> numpy scalar (of the symbol's dtype)."""

    def __init__(self, env, record_flags=True):
        self.env = env
        self.memo = {}
        self.flags = set()  # subset of {"nan", "overflow", "underflow"} raised at any node
        self.dtypes = {}  # id(expr) -> numpy type of the value
        self.order = []
        self.record_flags = record_flags

    def dtype_of(self, e):
        v = self.eval(e)
        return type(v)

    def eval(self, e):
        k = id(e)
        if k in self.memo:
            return self.memo[k]
        with np.errstate(all="ignore"):
            v = self._eval(e)
        self.memo[k] = v
        self.order.append(e)
        if not isinstance(v, (list, tuple)):
            self.dtypes[k] = type(v)
        return v

    def _flag(self, kind, result, operands):
        if not self.record_flags:
            return
        if isinstance(result, (np.bool_, bool, list, tuple)) or not isinstance(result, (np.floating, np.complexfloating, float)):
            return
        if isinstance(result, np.complexfloating):
            parts = [result.real, result.imag]
        else:
            parts = [result]
        ops = []
        for o in operands:
            if isinstance(o, np.complexfloating):
                ops += [o.real, o.imag]
            elif isinstance(o, (np.floating, float, np.integer, int)) and not isinstance(o, (bool, np.bool_)):
                ops.append(o)
        for r in parts:
            if np.isnan(r):
                self.flags.add("nan")
            elif np.isinf(r):
                if all(np.isfinite(o) for o in ops):
                    self.flags.add("overflow")
            else:
                fi = np.finfo(type(r)) if isinstance(r, np.floating) else np.finfo(np.float64)
                if r != 0 and abs(r) < fi.smallest_normal:
                    if kind not in ("symbol", "constant", "select", "negative", "positive", "absolute", "minimum", "maximum", "item", "real", "imag", "conjugate", "sign"):
                        self.flags.add("underflow")
                elif r == 0 and kind in ("multiply", "divide", "square", "sqrt", "downcast") and ops and all(o != 0 for o in ops) and all(np.isfinite(o) for o in ops):
                    self.flags.add("underflow")

    def const_value(self, value, like):
        T = self.dtype_of(like)
        if is_expr(value):
            # alternative-context constant: evaluate it in float64-ish python arithmetic of the alt graph, then cast
            v = NpRef({}, record_flags=False).eval(value)
            return T(v)
        if isinstance(value, str):
            if T in (np.bool_,):
                raise Unsupported("named constant of boolean type")
            ft = T
            if issubclass(T, np.complexfloating):
                ft = {np.complex64: np.float32, np.complex128: np.float64}[T]
            if not issubclass(ft, np.floating):
                raise Unsupported("named constant %s of type %s" % (value, T))
            fi = np.finfo(ft)
            table = {
                "largest": fi.max,
                "smallest": fi.smallest_normal,
                "smallest_subnormal": fi.smallest_subnormal,
                "eps": fi.eps,
                "posinf": ft(np.inf),
                "neginf": ft(-np.inf),
                "pi": ft(np.pi),
                "nan": ft(np.nan),
                "undefined": ft(np.nan),
            }
            if value not in table:
                raise Unsupported("named constant " + value)
            return T(table[value])
        if T is np.bool_:
            return np.bool_(bool(value))
        return T(value)

    def _eval(self, e):
        kind = e.kind
        ops = e.operands
        if kind == "symbol":
            name = ops[0]
            if name not in self.env:
                # symbols that only carry the type of a constant (Context.constant creates `_integer_value`, ...)
                tn = type_name(ops[1])
                if str(name).startswith("_") and tn in NP_TYPES:
                    return NP_TYPES[tn](0)
                raise Unsupported("free symbol " + str(name))
            return self.env[name]
        if kind == "constant":
            v = self.const_value(ops[0], ops[1])
            return v
        if kind == "apply":
            return self.eval(ops[-1])
        if kind == "list":
            return [self.eval(o) for o in ops]
        if kind == "item":
            c = self.eval(ops[0])
            i = self.eval(ops[1])
            return c[int(i)]
        if kind == "select":
            c = self.eval(ops[0])
            a, b = self.eval(ops[1]), self.eval(ops[2])
            if isinstance(a, list):
                return a if bool(c) else b
            T = np.result_type(a, b).type
            r = T(a) if bool(c) else T(b)
            return r
        vals = [self.eval(o) for o in ops]
        self._cur = e
        r = self._apply(kind, vals)
        self._flag(kind, r, vals)
        return r

    def _apply(self, kind, v):
        if kind == "add":
            return v[0] + v[1]
        if kind == "subtract":
            return v[0] - v[1]
        if kind == "multiply":
            return v[0] * v[1]
        if kind == "divide":
            return v[0] / v[1]
        if kind == "negative":
            return -v[0]
        if kind == "positive":
            return +v[0]
        if kind == "absolute":
            return np.abs(v[0])
        if kind == "sign":
            return np.sign(v[0])
        if kind == "sqrt":
            return np.sqrt(v[0])
        if kind == "square":
            if isinstance(v[0], np.complexfloating):
                # numpy.square of a complex *scalar* is not a function of its argument: the first call in a process goes
                # through the ufunc loop (fused multiply-add: real part of (0.1+0.1j)^2 is -8.3e-19), later calls through
                # scalar math (0.0).  The 1-element array loop is deterministic.
                return np.square(np.asarray([v[0]]))[0]
            return np.square(v[0])
        if kind == "minimum":
            # Python min semantics of the numpy/python targets: min(a, b) = b if b < a else a
            T = np.result_type(v[0], v[1]).type
            return T(v[1]) if v[1] < v[0] else T(v[0])
        if kind == "maximum":
            T = np.result_type(v[0], v[1]).type
            return T(v[1]) if v[1] > v[0] else T(v[0])
        if kind == "lt":
            return np.bool_(v[0] < v[1])
        if kind == "le":
            return np.bool_(v[0] <= v[1])
        if kind == "gt":
            return np.bool_(v[0] > v[1])
        if kind == "ge":
            return np.bool_(v[0] >= v[1])
        if kind == "eq":
            return np.bool_(v[0] == v[1])
        if kind == "ne":
            return np.bool_(v[0] != v[1])
        if kind == "logical_and":
            return np.bool_(bool(v[0]) and bool(v[1]))
        if kind == "logical_or":
            return np.bool_(bool(v[0]) or bool(v[1]))
        if kind == "logical_xor":
            return np.bool_(bool(v[0]) != bool(v[1]))
        if kind == "logical_not":
            return np.bool_(not bool(v[0]))
        if kind == "upcast":
            return UP[type(v[0])](v[0])
        if kind == "downcast":
            return DOWN[type(v[0])](v[0])
        if kind == "complex":
            T = {np.float32: np.complex64, np.float64: np.complex128}[np.result_type(v[0], v[1]).type]
            z = np.zeros(1, dtype=T)
            ft = {np.complex64: np.float32, np.complex128: np.float64}[T]
            z.view(ft)[0] = v[0]
            z.view(ft)[1] = v[1]
            return z[0]
        if kind == "real":
            return v[0].real
        if kind == "imag":
            return v[0].imag
        if kind == "conjugate":
            return np.conjugate(v[0])
        if kind == "is_finite":
            return np.bool_(np.isfinite(v[0]))
        fn = {
            "exp": np.exp,
            "expm1": np.expm1,
            "exp2": np.exp2,
            "log": np.log,
            "log1p": np.log1p,
            "log2": np.log2,
            "log10": np.log10,
            "sin": np.sin,
            "cos": np.cos,
            "tan": np.tan,
            "sinh": np.sinh,
            "cosh": np.cosh,
            "tanh": np.tanh,
            "asin": np.arcsin,
            "acos": np.arccos,
            "atan": np.arctan,
            "asinh": np.arcsinh,
            "acosh": np.arccosh,
            "atanh": np.arctanh,
            "floor": np.floor,
            "ceil": np.ceil,
            "truncate": np.trunc,
        }.get(kind)
        if fn is not None:
            return fn(v[0])
        if kind == "pow":
            # the numpy target emits the ** operator.  On two numpy scalars that is numpy's scalar-math pow; when an
            # operand is a 0-d array (numpy.where of a select) it is the ufunc loop, which for float32 may differ by
            # one ULP.  Both are "numpy's pow"; ufunc_pow (a set of node ids) selects the second form per node.
            if id(getattr(self, "_cur", None)) in getattr(self, "ufunc_pow", ()):
                return np.power(np.asarray(v[0]), np.asarray(v[1]))[()]
            return v[0] ** v[1]
        fn2 = {"atan2": np.arctan2, "hypot": np.hypot, "copysign": np.copysign, "nextafter": np.nextafter}.get(kind)
        if fn2 is not None:
            return fn2(v[0], v[1])
        if kind == "remainder":
            return v[0] % v[1]
        if kind == "floor_divide":
            return v[0] // v[1]
        raise Unsupported(kind)


INF = "inf"
NINF = "-inf"


def _isinf(v):
    return v is INF or v is NINF


class QRef:
    """Exact evaluation over rationals extended with +-inf. env: symbol name -> Fraction | INF | NINF.
    fmt_of(symbol_name) -> harness.flt.Fmt gives the exact values of named constants."""

    def __init__(self, env, sym_fmt, node_fmt=None):
        """node_fmt: optional callable expr -> Fmt.  When given, the evaluation is *strict*: a node whose exact value is
        not representable in the node's own floating-point format raises Inexact.  On assignments where the original
        evaluates strictly, exact and floating-point evaluation coincide at every node, so constant folding performed
        by the rewriter in the target dtype cannot be told apart from exact arithmetic."""
        self.env = env
        self.sym_fmt = sym_fmt  # callable: like-expr -> Fmt (format whose named constants apply)
        self.node_fmt = node_fmt
        self.memo = {}

    def eval(self, e):
        k = id(e)
        if k not in self.memo:
            v = self._eval(e)
            if self.node_fmt is not None and isinstance(v, Fraction):
                f = self.node_fmt(e)
                if f is not None:
                    from . import flt

                    if not flt.is_representable(v, f):
                        raise Inexact(e.kind)
            self.memo[k] = v
        return self.memo[k]

    def _eval(self, e):
        kind, ops = e.kind, e.operands
        if kind == "symbol":
            if ops[0] not in self.env:
                raise Undecided("free symbol")
            return self.env[ops[0]]
        if kind == "constant":
            value, like = ops
            if is_expr(value):
                raise Undecided("alt constant")
            if isinstance(value, str):
                f = self.sym_fmt(like)
                if f is None:
                    raise Undecided("named constant of untyped float")
                t = {"largest": f.largest, "smallest": f.smallest_normal, "smallest_subnormal": f.smallest_subnormal, "eps": Fraction(2) ** (-f.mbits), "posinf": INF, "neginf": NINF}
                if value not in t:
                    raise Undecided("constant " + value)
                return t[value]
            if isinstance(value, (bool, np.bool_)):
                return bool(value)
            if isinstance(value, (int, np.integer)):
                return Fraction(int(value))
            if isinstance(value, (float, np.floating)):
                fv = float(value) if not isinstance(value, np.longdouble) else value
                if np.isnan(fv):
                    raise Undefined("nan constant")
                if np.isinf(fv):
                    return INF if fv > 0 else NINF
                # the constant denotes its value rounded to the like's type; the rewriter performs that rounding
                # explicitly, the original graph implicitly -> both sides see the same real number if we round here
                f = self.sym_fmt(like)
                q = Fraction(*float(fv).as_integer_ratio()) if not isinstance(value, np.longdouble) else Fraction(*value.as_integer_ratio())
                if f is not None:
                    from . import flt

                    b = flt.RN(q, f)
                    if not flt.is_finite_bits(b, f):
                        return INF if q > 0 else NINF
                    return flt.bits2frac(b, f)
                return q
            raise Undecided("constant type %s" % type(value).__name__)
        if kind == "apply":
            return self.eval(ops[-1])
        if kind == "list":
            return [self.eval(o) for o in ops]
        if kind == "item":
            return self.eval(ops[0])[int(self.eval(ops[1]))]
        if kind == "select":
            c = self.eval(ops[0])
            # only the selected branch needs to be defined
            return self.eval(ops[1]) if c else self.eval(ops[2])
        if kind in ("logical_and", "logical_or"):
            # three-valued (Kleene) logic: `False and undefined` is False, `True or undefined` is True, in either
            # operand order -- the denotation shared by short-circuit (python) and eager NaN-tolerant (numpy) evaluation
            absorbing = kind == "logical_or"
            vals, undef = [], None
            for o in ops:
                try:
                    vals.append(bool(self.eval(o)))
                except Undefined as ex:
                    undef = ex
            if any(v == absorbing for v in vals):
                return absorbing
            if undef is not None:
                raise undef
            return (vals[0] or vals[1]) if absorbing else (vals[0] and vals[1])
        v = [self.eval(o) for o in ops]
        return self._apply(kind, v)

    def _cmp(self, a, b):
        """-1, 0, 1"""
        if a is b and _isinf(a):
            return 0
        if a is INF or b is NINF:
            return 1
        if a is NINF or b is INF:
            return -1
        return (a > b) - (a < b)

    def _apply(self, kind, v):
        a = v[0]
        b = v[1] if len(v) > 1 else None
        if kind in ("upcast", "downcast", "positive"):
            return a
        if kind == "negative":
            return NINF if a is INF else INF if a is NINF else -a
        if kind == "absolute":
            return INF if _isinf(a) else abs(a)
        if kind == "sign":
            if _isinf(a):
                return Fraction(1) if a is INF else Fraction(-1)
            return Fraction((a > 0) - (a < 0))
        if kind == "square":
            return INF if _isinf(a) else a * a
        if kind == "sqrt":
            if a is INF:
                return INF
            if a is NINF or a < 0:
                raise Undefined("sqrt of negative")
            n, d = a.numerator, a.denominator
            rn, rd = math.isqrt(n), math.isqrt(d)
            if rn * rn == n and rd * rd == d:
                return Fraction(rn, rd)
            raise Undecided("irrational sqrt")
        if kind in ("add", "subtract"):
            if kind == "subtract":
                b = NINF if b is INF else INF if b is NINF else -b
            if _isinf(a) or _isinf(b):
                if _isinf(a) and _isinf(b) and a is not b:
                    raise Undefined("inf - inf")
                return a if _isinf(a) else b
            return a + b
        if kind == "multiply":
            if _isinf(a) or _isinf(b):
                sa = (1 if a is INF else -1) if _isinf(a) else (a > 0) - (a < 0)
                sb = (1 if b is INF else -1) if _isinf(b) else (b > 0) - (b < 0)
                if sa == 0 or sb == 0:
                    raise Undefined("0 * inf")
                return INF if sa * sb > 0 else NINF
            return a * b
        if kind == "divide":
            if _isinf(a) and _isinf(b):
                raise Undefined("inf / inf")
            if _isinf(b):
                return Fraction(0)
            if b == 0:
                raise Undefined("division by zero")
            if _isinf(a):
                return a if b > 0 else (NINF if a is INF else INF)
            return a / b
        if kind in ("minimum", "maximum"):
            c = self._cmp(a, b)
            if kind == "minimum":
                return b if c > 0 else a
            return b if c < 0 else a
        if kind in ("lt", "le", "gt", "ge", "eq", "ne"):
            c = self._cmp(a, b)
            return {"lt": c < 0, "le": c <= 0, "gt": c > 0, "ge": c >= 0, "eq": c == 0, "ne": c != 0}[kind]
        if kind == "logical_not":
            return not bool(a)
        if kind == "logical_xor":
            return bool(a) != bool(b)
        if kind == "is_finite":
            return not _isinf(a)
        raise Undecided("kind " + kind)


class PyRef:
    """Python-semantics evaluation (float/int/bool/complex + math). Exceptions propagate (they are outcomes)."""

    def __init__(self, env):
        self.env = env
        self.memo = {}

    def eval(self, e):
        k = id(e)
        if k not in self.memo:
            self.memo[k] = self._eval(e)
        return self.memo[k]

    def _eval(self, e):
        import sys

        kind, ops = e.kind, e.operands
        if kind == "symbol":
            return self.env[ops[0]]
        if kind == "constant":
            value, like = ops
            if isinstance(value, str):
                t = {"smallest": sys.float_info.min, "largest": sys.float_info.max, "posinf": math.inf, "neginf": -math.inf, "pi": math.pi}
                if value not in t:
                    raise Unsupported("python constant " + value)
                return t[value]
            if is_expr(value):
                raise Unsupported("alt constant")
            # Python-math semantics: a numpy scalar constant is the Python number of the same value
            if isinstance(value, np.bool_):
                return bool(value)
            if isinstance(value, np.integer):
                return int(value)
            if isinstance(value, np.floating):
                return float(value)
            if isinstance(value, np.complexfloating):
                return complex(value)
            return value
        if kind == "apply":
            return self.eval(ops[-1])
        if kind == "select":
            return self.eval(ops[1]) if self.eval(ops[0]) else self.eval(ops[2])
        if kind == "logical_and":
            return self.eval(ops[0]) and self.eval(ops[1])
        if kind == "logical_or":
            return self.eval(ops[0]) or self.eval(ops[1])
        v = [self.eval(o) for o in ops]
        a = v[0]
        b = v[1] if len(v) > 1 else None
        if kind == "add":
            return a + b
        if kind == "subtract":
            return a - b
        if kind == "multiply":
            return a * b
        if kind == "divide":
            return a / b
        if kind == "negative":
            return -a
        if kind == "positive":
            return +a
        if kind == "absolute":
            return abs(a)
        if kind == "sign":
            return 0 if a == 0 else math.copysign(1, a)
        if kind == "maximum":
            return max(a, b)
        if kind == "minimum":
            return min(a, b)
        if kind == "logical_not":
            return not a
        if kind == "lt":
            return a < b
        if kind == "le":
            return a <= b
        if kind == "gt":
            return a > b
        if kind == "ge":
            return a >= b
        if kind == "eq":
            return a == b
        if kind == "ne":
            return a != b
        if kind == "complex":
            return complex(a, b)
        if kind == "real":
            return a.real
        if kind == "imag":
            return a.imag
        if kind == "conjugate":
            return a.conjugate()
        if kind == "is_finite":
            return math.isfinite(a)
        if kind == "pow":
            return a**b
        if kind == "remainder":
            return a % b
        if kind == "floor_divide":
            return a // b
        fn = {"sqrt": math.sqrt, "exp": math.exp, "expm1": math.expm1, "log": math.log, "log1p": math.log1p, "log2": math.log2, "log10": math.log10, "sin": math.sin, "cos": math.cos, "tan": math.tan, "sinh": math.sinh, "cosh": math.cosh, "tanh": math.tanh, "acos": math.acos, "acosh": math.acosh, "asinh": math.asinh, "atan": math.atan, "atanh": math.atanh, "floor": math.floor, "ceil": math.ceil, "truncate": math.trunc}.get(kind)
        if fn is not None:
            return fn(a)
        fn2 = {"atan2": math.atan2, "copysign": math.copysign}.get(kind)
        if fn2 is not None:
            return fn2(a, b)
        raise Unsupported(kind)


def same_value(a, b, zero_sign_matters=False):
    """bit-identical numpy/python values with all NaNs identified; optionally ignoring the sign of zero."""
    if isinstance(a, (list, tuple)) or isinstance(b, (list, tuple)):
        return isinstance(a, (list, tuple)) and isinstance(b, (list, tuple)) and len(a) == len(b) and all(same_value(x, y, zero_sign_matters) for x, y in zip(a, b))
    if isinstance(a, (bool, np.bool_)) or isinstance(b, (bool, np.bool_)):
        return isinstance(a, (bool, np.bool_)) and isinstance(b, (bool, np.bool_)) and bool(a) == bool(b)
    try:
        ca, cb = complex(a), complex(b)
    except Exception:
        return a == b
    for x, y in ((ca.real, cb.real), (ca.imag, cb.imag)):
        if math.isnan(x) or math.isnan(y):
            if not (math.isnan(x) and math.isnan(y)):
                return False
            continue
        if x != y:
            return False
        if zero_sign_matters and x == 0 and math.copysign(1, x) != math.copysign(1, y):
            return False
    return True


# ----------------------------------------------------------------------------------------------------------------
# C semantics: IEEE basic operations through numpy scalars (correctly rounded, identical to SSE arithmetic compiled with
# -ffp-contract=off), transcendental functions through ctypes calls into the very libm the emitted C++ links against.

_LIBM = None


def libm():
    global _LIBM
    if _LIBM is None:
        import ctypes
        import ctypes.util

        _LIBM = ctypes.CDLL(ctypes.util.find_library("m") or "libm.so.6")
    return _LIBM


_LIBM_FN = {}


def libm_call(name, T, *args):
    import ctypes

    suffix = "f" if T is np.float32 else ""
    ct = ctypes.c_float if T is np.float32 else ctypes.c_double
    key = (name, suffix, len(args))
    if key not in _LIBM_FN:
        fn = getattr(libm(), name + suffix)
        fn.restype = ct
        fn.argtypes = [ct] * len(args)
        _LIBM_FN[key] = fn
    return T(_LIBM_FN[key](*[float(a) for a in args]))


class CRef(NpRef):
    """Graph semantics with C++ primitives on float/double (std:: functions = libm)."""

    LIBM1 = {"log", "log1p", "log2", "log10", "exp", "expm1", "sin", "cos", "tan", "sinh", "cosh", "tanh", "asin", "acos", "atan", "asinh", "acosh", "atanh", "floor", "ceil", "round"}
    LIBM2 = {"atan2", "hypot", "copysign"}

    def _apply(self, kind, v):
        if kind in self.LIBM1 and isinstance(v[0], (np.float32, np.float64)):
            return libm_call(kind, type(v[0]), v[0])
        if kind in self.LIBM2 and isinstance(v[0], (np.float32, np.float64)) and type(v[0]) is type(v[1]):
            return libm_call(kind, type(v[0]), v[0], v[1])
        if kind == "maximum":
            # std::max(a, b) = (a < b) ? b : a
            T = np.result_type(v[0], v[1]).type
            return T(v[1]) if v[0] < v[1] else T(v[0])
        if kind == "minimum":
            # std::min(a, b) = (b < a) ? b : a
            T = np.result_type(v[0], v[1]).type
            return T(v[1]) if v[1] < v[0] else T(v[0])
        if kind == "absolute" and isinstance(v[0], np.complexfloating):
            ft = np.float32 if isinstance(v[0], np.complex64) else np.float64
            return libm_call("hypot", ft, ft(v[0].real), ft(v[0].imag))
        return super()._apply(kind, v)
