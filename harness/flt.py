"""Exact model of IEEE-754 binary16/32/64, written from the standard.

Imports nothing from functional_algorithms.  Scalars are handled as Python ints
(bit patterns) and Fractions; a few vectorised helpers work on numpy arrays.
"""

from fractions import Fraction
import numpy as np


class Fmt:
    def __init__(self, bits, p, ebits):
        self.bits = bits
        self.p = p  # precision incl. hidden bit
        self.ebits = ebits
        self.bias = (1 << (ebits - 1)) - 1
        self.emax = self.bias
        self.emin = 1 - self.bias
        self.mbits = p - 1
        self.sign_mask = 1 << (bits - 1)
        self.exp_mask = ((1 << ebits) - 1) << self.mbits
        self.man_mask = (1 << self.mbits) - 1
        self.inf_bits = self.exp_mask
        self.largest_bits = self.exp_mask - 1
        self.smallest_normal_bits = 1 << self.mbits
        self.ftype = {16: np.float16, 32: np.float32, 64: np.float64}[bits]
        self.utype = {16: np.uint16, 32: np.uint32, 64: np.uint64}[bits]
        self.itype = {16: np.int16, 32: np.int32, 64: np.int64}[bits]
        self.ctype = {16: None, 32: np.complex64, 64: np.complex128}[bits]
        self.name = "float%d" % bits
        # exact values
        self.largest = Fraction((1 << p) - 1) * Fraction(2) ** (self.emax - p + 1)
        self.smallest_normal = Fraction(2) ** self.emin
        self.smallest_subnormal = Fraction(2) ** (self.emin - p + 1)
        # overflow threshold of round-to-nearest: largest + half ulp(largest)
        self.overflow_threshold = self.largest + Fraction(2) ** (self.emax - p)

    def __repr__(self):
        return "Fmt(%d)" % self.bits


F16 = Fmt(16, 11, 5)
F32 = Fmt(32, 24, 8)
F64 = Fmt(64, 53, 11)
FMT = {16: F16, 32: F32, 64: F64, "float16": F16, "float32": F32, "float64": F64}


def fmt_of(x):
    """Format of a numpy scalar/array/dtype."""
    if isinstance(x, Fmt):
        return x
    dt = np.dtype(getattr(x, "dtype", x))
    if dt.kind == "c":
        return FMT[dt.itemsize * 4]
    return FMT[dt.itemsize * 8]


# ------------------------------------------------------------------ scalars


def is_nan_bits(b, f):
    return (b & f.exp_mask) == f.exp_mask and (b & f.man_mask) != 0


def is_inf_bits(b, f):
    return (b & ~f.sign_mask) == f.inf_bits


def is_finite_bits(b, f):
    return (b & f.exp_mask) != f.exp_mask


def is_subnormal_bits(b, f):
    return (b & f.exp_mask) == 0 and (b & f.man_mask) != 0


def bits2frac(b, f):
    """Exact value of a finite bit pattern."""
    assert is_finite_bits(b, f), hex(b)
    s = -1 if b & f.sign_mask else 1
    e = (b & f.exp_mask) >> f.mbits
    m = b & f.man_mask
    if e == 0:
        return s * Fraction(m) * Fraction(2) ** (f.emin - f.mbits)
    return s * Fraction(m | (1 << f.mbits)) * Fraction(2) ** (e - f.bias - f.mbits)


def index(b, f):
    """Signed lattice index: +0/-0 -> 0, +-inf -> +-(largest index + 1). NaN not allowed."""
    assert not is_nan_bits(b, f), hex(b)
    mag = b & ~f.sign_mask
    return -mag if b & f.sign_mask else mag


def from_index(i, f, negzero=False):
    assert abs(i) <= f.inf_bits
    if i == 0:
        return f.sign_mask if negzero else 0
    return (f.sign_mask | -i) if i < 0 else i


def lattice_dist(a, b, f):
    return abs(index(a, f) - index(b, f))


def RN(q, f, negzero=False):
    """Round a Fraction to nearest, ties to even; returns bits. Overflow -> inf per IEEE."""
    if q == 0:
        return f.sign_mask if negzero else 0
    s = 0
    if q < 0:
        s = f.sign_mask
        q = -q
    if q >= f.overflow_threshold:
        return s | f.inf_bits
    # exponent e with 2^e <= q < 2^(e+1)
    n, d = q.numerator, q.denominator
    e = n.bit_length() - d.bit_length()
    if Fraction(2) ** e > q:
        e -= 1
    elif Fraction(2) ** (e + 1) <= q:
        e += 1
    e = max(e, f.emin)
    # quantum 2^(e - mbits)
    shift = e - f.mbits
    scaled = q / Fraction(2) ** shift  # in [2^mbits, 2^p) for normals, [0, 2^mbits) for subnormals
    fl = scaled.numerator // scaled.denominator
    rem = scaled - fl
    if rem > Fraction(1, 2) or (rem == Fraction(1, 2) and (fl & 1)):
        fl += 1
    # fl in [0, 2^p]; position in lattice: magnitude index = (e - emin) * 2^mbits + fl  (fl includes hidden bit)
    mag = (e - f.emin) * (1 << f.mbits) + fl
    # for subnormals (e == emin, fl < 2^mbits) the formula gives fl directly; for normals hidden bit adds 2^mbits -> exponent field 1
    assert mag <= f.inf_bits
    return s | mag


def RN_frac(q, f):
    b = RN(q, f)
    return None if not is_finite_bits(b, f) else bits2frac(b, f)


def ulp_frac(q, f):
    """Unit in the last place of real |q| > 0 in format f (spacing of the lattice at q)."""
    q = abs(q)
    if q < f.smallest_normal:
        return f.smallest_subnormal
    n, d = q.numerator, q.denominator
    e = n.bit_length() - d.bit_length()
    if Fraction(2) ** e > q:
        e -= 1
    elif Fraction(2) ** (e + 1) <= q:
        e += 1
    e = min(e, f.emax)
    return Fraction(2) ** (e - f.mbits)


def nextafter_bits(b, f, up):
    i = index(b, f)
    i = i + 1 if up else i - 1
    if abs(i) > f.inf_bits:
        return b
    # nextafter(+-0, down) = -smallest; result 0 keeps sign convention of numpy: nextafter(smallest, -inf)=+0, nextafter(-smallest, inf) = -0
    if i == 0:
        return f.sign_mask if (up and True) and index(b, f) < 0 else 0
    return from_index(i, f)


def scalar_bits(x):
    """numpy floating scalar -> int bits"""
    f = fmt_of(x)
    return int(np.asarray(x).view(f.utype))


def bits_scalar(b, f):
    return np.array(b, dtype=f.utype).view(f.ftype)[()]


def frac2float_exact(q, f):
    """numpy scalar for an exactly representable Fraction (asserts exactness)."""
    b = RN(q, f)
    assert is_finite_bits(b, f) and bits2frac(b, f) == q, (q, f)
    return bits_scalar(b, f)


def is_representable(q, f):
    b = RN(q, f)
    return is_finite_bits(b, f) and bits2frac(b, f) == q


def float2frac(x):
    """numpy finite scalar -> Fraction via bits (independent of utils.float2fraction)."""
    return bits2frac(scalar_bits(x), fmt_of(x))


# ------------------------------------------------------------------ vectorised


def np_bits(a):
    f = fmt_of(a)
    return np.ascontiguousarray(a).view(f.utype)


def np_index(a):
    """Signed lattice index as int64 (NaN entries undefined)."""
    f = fmt_of(a)
    u = np_bits(a).astype(np.uint64)
    mag = (u & np.uint64((1 << (f.bits - 1)) - 1)).astype(np.int64)
    neg = (u >> np.uint64(f.bits - 1)).astype(bool)
    return np.where(neg, -mag, mag)


def np_from_index(i, f):
    i = np.asarray(i, dtype=np.int64)
    mag = np.abs(i).astype(np.uint64)
    u = np.where(i < 0, mag | np.uint64(f.sign_mask), mag).astype(f.utype)
    return u.view(f.ftype)


def np_lattice_dist(a, b):
    """Lattice distance of two same-dtype arrays (float64 result exact below 2^53; int for <=32 bit)."""
    ia, ib = np_index(a), np_index(b)
    f = fmt_of(a)
    if f.bits == 64:
        # may overflow int64 when signs differ: use float128-free trick via python objects only if needed
        d = np.abs(ia.astype(np.float64) - ib.astype(np.float64))
        same = (ia >= 0) == (ib >= 0)
        dd = np.abs(ia - ib)
        return np.where(same, dd.astype(np.float64), d)
    return np.abs(ia - ib)


def all_bits(f, finite=True, nonnan=True):
    """All bit patterns of a 16/32-bit format (as the unsigned array)."""
    assert f.bits in (16, 32)
    u = np.arange(1 << f.bits, dtype=np.uint64).astype(f.utype)
    e = u & f.utype(f.exp_mask)
    m = u & f.utype(f.man_mask)
    if finite:
        return u[e != f.utype(f.exp_mask)]
    if nonnan:
        return u[~((e == f.utype(f.exp_mask)) & (m != 0))]
    return u


def all_floats(f, finite=True, nonnan=True):
    return all_bits(f, finite, nonnan).view(f.ftype)


def special_values(f, neighbours=2, infinities=True):
    """Special lattice points of the format with +-1..neighbours lattice neighbours, both signs."""
    base = [
        0,
        1,
        f.smallest_normal_bits - 1,
        f.smallest_normal_bits,
        index(RN(Fraction(2) ** (-f.mbits), f), f),  # eps
        index(RN(Fraction(1, 2), f), f),
        index(RN(Fraction(1), f), f),
        index(RN(Fraction(3, 2), f), f),
        index(RN(Fraction(2), f), f),
        index(RN(Fraction(2) ** (f.emax // 2), f), f),
        index(RN(Fraction(2) ** (f.emin // 2), f), f),
        f.largest_bits,
    ]
    out = set()
    for i in base:
        for d in range(-neighbours, neighbours + 1):
            j = i + d
            if 0 <= j <= f.largest_bits:
                out.add(j)
    if infinities:
        out.add(f.inf_bits)
    idx = sorted(out)
    bits = [i for i in idx] + [f.sign_mask | i for i in idx]
    return np.array(bits, dtype=np.uint64).astype(f.utype).view(f.ftype)


def random_bits_floats(rng, n, f, nonnan=True, finite=False):
    """Uniform over bit patterns (= log-uniform over the whole range), NaN (and optionally inf) removed by resampling."""
    u = rng.integers(0, 1 << f.bits, size=n, dtype=np.uint64).astype(f.utype)
    while True:
        e = u & f.utype(f.exp_mask)
        bad = e == f.utype(f.exp_mask)
        if not finite:
            bad &= (u & f.utype(f.man_mask)) != 0
        k = int(bad.sum())
        if k == 0:
            break
        u[bad] = rng.integers(0, 1 << f.bits, size=k, dtype=np.uint64).astype(f.utype)
    return u.view(f.ftype)


def selftest(n=200000, seed=0):
    """Cross-validate the model against numpy: all float16, sampled float32/64."""
    rng = np.random.default_rng(seed)
    for f in (F16, F32, F64):
        if f.bits == 16:
            xs = all_floats(f, finite=True)
        else:
            xs = random_bits_floats(rng, n if f.bits == 32 else n // 4, f, finite=True)
            xs = np.concatenate([xs, special_values(f, infinities=False)])
        step = max(1, len(xs) // 20000)
        for x in xs[::step]:
            b = scalar_bits(x)
            q = bits2frac(b, f)
            assert float(q) == float(x) or f.bits < 64, (x, q)
            n_, d_ = float(x).as_integer_ratio()
            assert q == Fraction(n_, d_), (x, q)
            assert RN(q, f, negzero=bool(b & f.sign_mask)) == b, (x, hex(b))
            up = np.nextafter(x, f.ftype(np.inf))
            dn = np.nextafter(x, f.ftype(-np.inf))
            if np.isfinite(up):
                assert index(scalar_bits(up), f) == index(b, f) + 1
                # midpoint rounding: ties-to-even
                qm = (q + bits2frac(scalar_bits(up), f)) / 2
                r = RN(qm, f)
                assert r in (b, scalar_bits(up)) or (q == 0), (x,)
                ev = r & 1
                assert ev == 0 or is_inf_bits(r, f), (x, hex(r))
            if np.isfinite(dn):
                assert index(scalar_bits(dn), f) == index(b, f) - 1
        # RN vs numpy conversions from float64 (float16/32 only)
        if f.bits < 64:
            ys = random_bits_floats(rng, 20000, F64, finite=True)
            ys = np.concatenate([ys, rng.standard_normal(2000) * float(f.largest), rng.standard_normal(2000) * float(f.smallest_normal)])
            with np.errstate(all="ignore"):
                conv = ys.astype(f.ftype)
            for y, c in zip(ys, conv):
                n_, d_ = float(y).as_integer_ratio()
                r = RN(Fraction(n_, d_), f, negzero=bool(np.signbit(y)))
                assert r == scalar_bits(c), (y, c, hex(r))
    # vectorised index
    for f in (F16, F32, F64):
        xs = random_bits_floats(rng, 1000, f)
        ii = np_index(xs)
        for x, i in zip(xs, ii):
            assert index(scalar_bits(x), f) == int(i)
        assert (np_bits(np_from_index(ii, f)) == np_bits(np.where(xs == 0, f.ftype(0), xs))).all()
    return True


if __name__ == "__main__":
    selftest()
    print("flt selftest ok")
