"""Enumeration and generation of the (target, function, signature) units exactly as results/update.py prepares them."""

import contextlib
import hashlib
import io
import warnings

TARGETS = ("cpp", "numpy", "python", "stablehlo", "xla_client")


def all_units(targets=TARGETS, user=False):
    """user=True appends the user-style definitions of harness/userdefs.py (function name "user:<name>")"""
    import functional_algorithms as fa

    out = []
    for tn in targets:
        target = getattr(fa.targets, tn)
        for fn in sorted(target.trace_arguments):
            for i, _ in enumerate(target.trace_arguments[fn]):
                out.append((tn, fn, i))
    if user:
        from harness import userdefs

        for tn in targets:
            for name in sorted(userdefs.DEFS):
                _, nargs, kind = userdefs.DEFS[name]
                for i, _ in enumerate(userdefs.signatures(tn, kind, nargs)):
                    out.append((tn, "user:" + name, i))
    return out


def make_context(tn):
    import functional_algorithms as fa

    if tn == "xla_client":
        return fa.Context(paths=[fa.algorithms], enable_alt=True, default_constant_type="FloatType")
    return fa.Context(paths=[fa.algorithms])


def build_graph(unit):
    """Traced, expanded and rewritten graph for a unit (fresh Context); None when the target does not implement it."""
    import functional_algorithms as fa

    tn, fn, i = unit
    target = getattr(fa.targets, tn)
    if fn.startswith("user:"):
        from harness import userdefs

        func, nargs, kind = userdefs.DEFS[fn[5:]]
        atypes = userdefs.signatures(tn, kind, nargs)[i]
    else:
        func = getattr(fa.algorithms, fn)
        atypes = target.trace_arguments[fn][i]
    ctx = make_context(tn)
    with warnings.catch_warnings():
        warnings.simplefilter("ignore")
        with contextlib.redirect_stdout(io.StringIO()):
            try:
                graph = ctx.trace(func, *atypes).rewrite(target, fa.rewrite)
            except NotImplementedError:
                return None
    graph.props.update(name="%s_%d" % (fn.replace("user:", "user_"), i))
    return graph


def generate(unit, debug=0):
    import functional_algorithms as fa

    g = build_graph(unit)
    if g is None:
        return None
    target = getattr(fa.targets, unit[0])
    with warnings.catch_warnings():
        warnings.simplefilter("ignore")
        with contextlib.redirect_stdout(io.StringIO()):
            return g.tostring(target) if not debug else g.tostring(target, debug=debug)


def sha(text):
    return "NOTIMPL" if text is None else hashlib.sha256(text.encode()).hexdigest()[:20]


if __name__ == "__main__":
    # child-process mode: print {unit: sha} as JSON; argv[1] = order (sorted|reversed)
    import json
    import sys

    us = all_units(user=True)
    if len(sys.argv) > 1 and sys.argv[1] == "reversed":
        us = us[::-1]
    out = {}
    for u in us:
        out["/".join(map(str, u))] = sha(generate(u))
    if len(sys.argv) > 1 and sys.argv[1] == "reversed":
        # second pass in the same process: repeated tracing
        for u in us[::3]:
            k = "/".join(map(str, u))
            h = sha(generate(u))
            if h != out[k]:
                out[k] = "REPEAT-DIFFERS:" + h
    print("@@JSON@@" + json.dumps(out, sort_keys=True))
