"""Independent parsers for the text emitted by the stablehlo (.td patterns) and xla_client (.cc builder code) targets."""

import re

# ------------------------------------------------------------------------------------------------ TableGen patterns

_TD_TOK = re.compile(r'\s*(?:(\()|(\))|(,)|(:\$[A-Za-z_]\w*)|(\$[A-Za-z_]\w*)|([A-Za-z_]\w*(?:<"[^"]*">)?)|(.))')


class TdNode:
    def __init__(self, op):
        self.op = op  # operator name, possibly with <"...">
        self.binding = None
        self.operands = []  # TdNode | ("ref", name) | ("attr", text)

    def __repr__(self):
        return "(%s%s %r)" % (self.op, ":$" + self.binding if self.binding else "", self.operands)


class ParseError(Exception):
    pass


def td_tokens(text):
    out = []
    pos = 0
    while pos < len(text):
        m = _TD_TOK.match(text, pos)
        if not m:
            break
        pos = m.end()
        if m.group(1):
            out.append(("(", "("))
        elif m.group(2):
            out.append((")", ")"))
        elif m.group(3):
            out.append((",", ","))
        elif m.group(4):
            out.append(("bind", m.group(4)[2:]))
        elif m.group(5):
            out.append(("ref", m.group(5)[1:]))
        elif m.group(6):
            out.append(("id", m.group(6)))
        elif m.group(7) and m.group(7).strip():
            out.append(("other", m.group(7)))
    return out


def parse_td(text):
    """Returns (pattern_name, [(argtype, argname)], body) for `def NAME: Pat<(HEAD args), BODY>;`"""
    m = re.match(r"\s*def\s*(\w*)\s*:\s*Pat<(.*)>;\s*$", text, re.S)
    if not m:
        raise ParseError("not a Pat definition")
    toks = td_tokens(m.group(2))
    pos = [0]

    def peek():
        return toks[pos[0]] if pos[0] < len(toks) else ("eof", "")

    def take(kind=None):
        t = peek()
        if kind and t[0] != kind:
            raise ParseError("expected %s, got %r at token %d" % (kind, t, pos[0]))
        pos[0] += 1
        return t

    def node():
        t = peek()
        if t[0] == "ref":
            take()
            return ("ref", t[1])
        if t[0] == "id":
            take()
            return ("attr", t[1])
        take("(")
        op = take("id")[1]
        n = TdNode(op)
        if peek()[0] == "bind":
            n.binding = take()[1]
        first = True
        while peek()[0] != ")":
            if not first:
                take(",")
            first = False
            if peek()[0] == ")":
                break
            # argument of the head: Type:$name
            if peek()[0] == "id" and pos[0] + 1 < len(toks) and toks[pos[0] + 1][0] == "bind":
                ty = take()[1]
                nm = take()[1]
                n.operands.append(("arg", ty, nm))
            else:
                n.operands.append(node())
        take(")")
        return n

    head = node()
    take(",")
    body = node()
    if peek()[0] != "eof":
        raise ParseError("trailing tokens after the pattern body: %r" % (toks[pos[0] :][:4],))
    args = [(o[1], o[2]) for o in head.operands if isinstance(o, tuple) and o[0] == "arg"]
    if len(args) != len(head.operands):
        raise ParseError("pattern head has non-argument operands")
    return head.op, args, body


# ------------------------------------------------------------------------------------------------ XLA client C++

_CC_TOK = re.compile(r"\s*(?:(\d+\.?\d*(?:[eE][+-]?\d+)?|\.\d+(?:[eE][+-]?\d+)?)|([A-Za-z_][\w:]*(?:<[^<>]*>)?(?:::\w+)*)|(.))")


class Call:
    def __init__(self, name, args):
        self.name = name
        self.args = args

    def __repr__(self):
        return "%s(%s)" % (self.name, ", ".join(map(repr, self.args)))


class BinOp:
    def __init__(self, op, a, b):
        self.op, self.a, self.b = op, a, b

    def __repr__(self):
        return "(%r %s %r)" % (self.a, self.op, self.b)


class Unary:
    def __init__(self, op, a):
        self.op, self.a = op, a

    def __repr__(self):
        return "(%s%r)" % (self.op, self.a)


class Num:
    def __init__(self, text):
        self.text = text

    def __repr__(self):
        return self.text


class Name:
    def __init__(self, name):
        self.name = name

    def __repr__(self):
        return self.name


def cc_tokens(text):
    out = []
    pos = 0
    while pos < len(text):
        m = _CC_TOK.match(text, pos)
        if not m:
            break
        pos = m.end()
        if m.group(1):
            out.append(("num", m.group(1)))
        elif m.group(2):
            out.append(("id", m.group(2)))
        elif m.group(3) and m.group(3).strip():
            out.append(("p", m.group(3)))
    return out


class Ternary:
    def __init__(self, c, a, b):
        self.c, self.a, self.b = c, a, b

    def __repr__(self):
        return "(%r ? %r : %r)" % (self.c, self.a, self.b)


def _merge_ops(toks):
    """join two-character operators"""
    out = []
    i = 0
    while i < len(toks):
        if toks[i][0] == "p" and i + 1 < len(toks) and toks[i + 1][0] == "p" and toks[i][1] + toks[i + 1][1] in ("<=", ">=", "==", "!=", "&&", "||"):
            out.append(("p", toks[i][1] + toks[i + 1][1]))
            i += 2
        else:
            out.append(toks[i])
            i += 1
    return out


def parse_cc_expr(text):
    toks = _merge_ops(cc_tokens(text))
    pos = [0]

    def peek():
        return toks[pos[0]] if pos[0] < len(toks) else ("eof", "")

    def take():
        t = peek()
        pos[0] += 1
        return t

    def primary():
        t = take()
        if t[0] == "num":
            return Num(t[1])
        if t == ("p", "("):
            e = expr()
            if take() != ("p", ")"):
                raise ParseError("expected )")
            return e
        if t == ("p", "-"):
            return Unary("-", primary())
        if t == ("p", "!"):
            return Unary("!", primary())
        if t == ("p", "+"):
            return primary()
        if t[0] == "id":
            if peek() == ("p", "("):
                take()
                args = []
                while peek() != ("p", ")"):
                    args.append(expr())
                    if peek() == ("p", ","):
                        take()
                    elif peek() != ("p", ")"):
                        raise ParseError("expected , or ) in call of %s" % t[1])
                take()
                return Call(t[1], args)
            return Name(t[1])
        raise ParseError("unexpected token %r" % (t,))

    def level(ops, nxt):
        def f():
            a = nxt()
            while peek()[0] == "p" and peek()[1] in ops:
                op = take()[1]
                a = BinOp(op, a, nxt())
            return a

        return f

    term = level(("*", "/", "%"), primary)
    additive = level(("+", "-"), term)
    relational = level(("<", "<=", ">", ">="), additive)
    equality = level(("==", "!="), relational)
    land = level(("&&",), equality)
    lor = level(("||",), land)

    def expr():
        c = lor()
        if peek() == ("p", "?"):
            take()
            a = expr()
            if take() != ("p", ":"):
                raise ParseError("expected : of a conditional expression")
            b = expr()
            return Ternary(c, a, b)
        return c

    e = expr()
    if peek()[0] != "eof":
        raise ParseError("trailing tokens in expression %r: %r" % (text[:60], toks[pos[0] :][:3]))
    return e


def parse_cc(text):
    """Returns (template_typename|None, name, [(type, argname)], [(type, var, expr)], return_expr)."""
    src = text.strip()
    tmpl = None
    m = re.match(r"template\s*<\s*typename\s+(\w+)\s*>\s*", src)
    if m:
        tmpl = m.group(1)
        src = src[m.end() :]
    m = re.match(r"(\w[\w:<>]*)\s+(\w+)\s*\(([^)]*)\)\s*\{(.*)\}\s*$", src, re.S)
    if not m:
        raise ParseError("not a function definition")
    rtype, name, sargs, body = m.groups()
    args = []
    for a in [x.strip() for x in sargs.split(",") if x.strip()]:
        ty, nm = a.rsplit(None, 1)
        args.append((ty, nm))
    stmts = [s.strip() for s in body.split(";") if s.strip()]
    decls = []
    ret = None
    for s in stmts:
        if s.startswith("return"):
            if ret is not None:
                raise ParseError("two return statements")
            ret = parse_cc_expr(s[len("return") :])
        else:
            m2 = re.match(r"([\w:<>]+)\s+(\w+)\s*=\s*(.*)$", s, re.S)
            if not m2:
                raise ParseError("cannot parse statement %r" % s[:60])
            if ret is not None:
                raise ParseError("statement after return")
            decls.append((m2.group(1), m2.group(2), parse_cc_expr(m2.group(3))))
    if ret is None:
        raise ParseError("no return statement")
    return tmpl, name, args, decls, ret
