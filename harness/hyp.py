"""Hypothesis driver shared by the property modules.

`drive(ctx, strategy, body, max_examples, name)` runs a seeded Hypothesis search.
`body(case, part)` evaluates one generated case, records counters on `part` (a Partial) and returns a
list of (cls, what) violations.  Violations whose class is an *open known finding* never fail the
Hypothesis test (they are counted as excluded, so the search continues behind them).  Any other
violation fails the test, Hypothesis shrinks it, the minimal case is recorded, its class is added to
the exclusion set and the search is restarted, so several root causes are enumerated in one run.
"""

import hypothesis
from hypothesis import HealthCheck, Phase, settings, strategies as st  # noqa: F401

from .runner import Partial, jsonable


class _Fail(Exception):
    pass


def drive(ctx, strategy, body, max_examples, name="", max_classes=6, shrink=True, encode=None, stream=0):
    excluded = set(ctx.open_classes())
    known_open = set(excluded)
    found = []
    rounds = 0
    phases = [Phase.explicit, Phase.generate] + ([Phase.shrink] if shrink else [])
    while rounds < max_classes:
        rounds += 1
        state = {"last": None}
        part = Partial()

        @hypothesis.seed(ctx.seed * 1000003 + stream * 101 + rounds)
        @settings(
            max_examples=max_examples,
            deadline=None,
            database=None,
            derandomize=False,
            report_multiple_bugs=False,
            phases=phases,
            suppress_health_check=list(HealthCheck),
            print_blob=False,
        )
        @hypothesis.given(strategy)
        def test(case):
            viols = body(case, part)
            bad = []
            for cls, what in viols or []:
                if cls in excluded:
                    if cls in known_open:
                        part.excluded_known += 1
                else:
                    bad.append((cls, what))
            if bad:
                state["last"] = (case, bad)
                raise _Fail(bad[0][0])

        try:
            test()
            ok = True
        except _Fail:
            ok = False
        except hypothesis.errors.Flaky:
            ok = False
        # counters from all rounds are merged (evaluations are real evaluations)
        ctx.merge(part)
        if ok:
            break
        case, bad = state["last"]
        enc = encode(case) if encode else case
        for cls, what in bad:
            found.append(cls)
            ctx.violation(cls, "%s%s" % ((name + ": ") if name else "", what), enc)
            excluded.add(cls)
    return found


def ddmin_steps(steps, still_fails):
    """Delta-debugging over a list of plain steps: remove chunks while `still_fails(candidate)` holds."""
    steps = list(steps)
    n = 2
    while len(steps) >= 2:
        chunk = max(1, len(steps) // n)
        reduced = False
        i = 0
        while i < len(steps):
            cand = steps[:i] + steps[i + chunk :]
            if cand and still_fails(cand):
                steps = cand
                reduced = True
            else:
                i += chunk
        if not reduced:
            if chunk == 1:
                break
            n = min(len(steps), n * 2)
    return steps


def drive_machine(ctx, machine_cls, max_examples, steps, name="", stream=0, minimise=None):
    """minimise(history, cls) -> smaller history: when given, Hypothesis' own (slow) stateful shrinker is switched
    off and the recorded plain history is minimised by the property module (delta debugging over steps)."""
    """Run a RuleBasedStateMachine; the machine reports violations by raising MachineViolation(cls, what, history)."""
    from hypothesis.stateful import run_state_machine_as_test

    excluded = set(ctx.open_classes())
    machine_cls._known_open = set(excluded)
    rounds = 0
    while rounds < 6:
        rounds += 1
        machine_cls._excluded = excluded
        machine_cls._part = Partial()
        machine_cls._last = None
        s = settings(
            max_examples=max_examples,
            stateful_step_count=steps,
            deadline=None,
            database=None,
            derandomize=False,
            report_multiple_bugs=False,
            suppress_health_check=list(HealthCheck),
            print_blob=False,
            phases=[Phase.explicit, Phase.generate] + ([] if minimise else [Phase.shrink]),
        )
        try:
            run_state_machine_as_test(hypothesis.seed(ctx.seed * 1000003 + stream * 101 + rounds)(machine_cls), settings=s)
            ok = True
        except MachineViolation:
            ok = False
        except hypothesis.errors.Flaky:
            ok = False
        ctx.merge(machine_cls._part)
        if ok:
            break
        v = machine_cls._last
        if v is None:
            raise RuntimeError("state machine failed without recording a violation")
        hist = v.history
        if minimise:
            hist = minimise(hist, v.cls)
        ctx.violation(v.cls, "%s%s" % ((name + ": ") if name else "", v.what), hist)
        excluded.add(v.cls)


class MachineViolation(Exception):
    def __init__(self, cls, what, history):
        super().__init__("%s: %s" % (cls, what))
        self.cls = cls
        self.what = what
        self.history = jsonable(history)
