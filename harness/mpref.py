"""Multiprecision oracle: mpmath evaluated Ziv-style (two working precisions must round to the same float), own
float<->mpf conversion through harness/flt.py, C99 Annex G values at infinite inputs, both-sides acceptance on branch
cuts.  Independent of functional_algorithms.utils.mpmath_array_api."""

from fractions import Fraction

import mpmath

from . import flt

MAXPREC = 40000


class Undecided(Exception):
    pass


def to_mpf(bits, f):
    """finite bit pattern -> exact mpf (in a context of enough precision; mpf values carry their own mantissa)"""
    q = flt.bits2frac(bits, f)
    return mpmath.mpf(q.numerator) / mpmath.mpf(q.denominator)  # exact: denominator is a power of two


def mpf_to_frac(v):
    s, man, exp, bc = v._mpf_
    q = Fraction(int(man)) * Fraction(2) ** int(exp)
    return -q if s else q


def rn_mpf(v, f):
    """RN of an mpf to the format; returns bits (sign of an exact zero is +)"""
    if mpmath.isinf(v):
        return f.inf_bits | (f.sign_mask if v < 0 else 0)
    if mpmath.isnan(v):
        return None
    return flt.RN(mpf_to_frac(v), f, negzero=False)


CFUNCS = {
    "absolute": lambda z: mpmath.hypot(z.real, z.imag),
    "acos": mpmath.acos,
    "acosh": mpmath.acosh,
    "asin": mpmath.asin,
    "asinh": mpmath.asinh,
    "atan": mpmath.atan,
    "atanh": mpmath.atanh,
    "exp": mpmath.exp,
    "log": mpmath.log,
    "log2": lambda z: mpmath.log(z) / mpmath.log(2),
    "log10": lambda z: mpmath.log(z) / mpmath.log(10),
    "log1p": lambda z: mpmath.log(1 + z),
    "sqrt": mpmath.sqrt,
    "square": lambda z: z * z,
}


def _exponent_span(vals):
    es = [mpmath.frexp(abs(v))[1] for v in vals if v != 0]
    return (max(es) - min(es)) if es else 0, (max(abs(e) for e in es) if es else 0)


def ziv_complex(fname, x, y, f, start=None):
    """x, y: exact mpf components. Returns (re_bits, im_bits) of the correctly rounded value; raises Undecided."""
    span, mag = _exponent_span([x, y])
    prec = start or (4 * f.p + 64)
    if fname in ("exp",):
        prec += int(mag) + 16  # argument reduction of huge imaginary parts
    if fname in ("log1p", "asin", "acos", "asinh", "acosh", "atanh", "atan", "log", "log2", "log10"):
        prec += min(int(span), 2400) + min(int(mag), 2400)  # cancellation against 1 / tiny components
    prev = None
    fn = CFUNCS[fname]
    while prec <= MAXPREC:
        with mpmath.workprec(prec):
            v = fn(mpmath.mpc(x, y))
            if isinstance(v, mpmath.mpf):
                v = mpmath.mpc(v, 0)
            cur = (rn_mpf(v.real, f), rn_mpf(v.imag, f), v)
        if prev is not None and prev[0] == cur[0] and prev[1] == cur[1]:
            return cur[0], cur[1], cur[2]
        prev = cur
        prec *= 2
    raise Undecided(fname)


def _sgn(bits, f):
    return -1 if bits & f.sign_mask else 1


PI = None


def pi_frac(num, den, f):
    """RN(num*pi/den) bits"""
    with mpmath.workprec(4 * f.p + 64):
        return rn_mpf(mpmath.pi * num / den, f)


def annex_g(fname, xb, yb, f):
    """Reference for inputs with at least one infinite component (no NaN).  Returns (re_spec, im_spec) where a spec is
    ('val', bits)  value with sign (zero sign significant),  ('zero',) zero of either sign,  ('inf', sign|0) infinity
    (0 = either sign),  ('nan_or', spec) NaN accepted as well as spec,  ('any',) unspecified."""
    INF = f.inf_bits
    xinf = (xb & ~f.sign_mask) == INF
    yinf = (yb & ~f.sign_mask) == INF
    sx, sy = _sgn(xb, f), _sgn(yb, f)
    xzero = (xb & ~f.sign_mask) == 0
    yzero = (yb & ~f.sign_mask) == 0

    def val(bits, sign=1):
        return ("val", bits | (f.sign_mask if sign < 0 else 0))

    def pi(num, den, sign=1):
        return val(pi_frac(num, den, f), sign)

    def inf(sign):
        return ("inf", sign)

    def zero(sign):
        return val(0, sign)

    if fname == "absolute":
        return inf(1), zero(1)
    if fname == "sqrt":
        if yinf:
            return inf(1), inf(sy)
        if sx > 0:
            return inf(1), zero(sy)
        return zero(1), inf(sy)
    if fname in ("log", "log2", "log10", "log1p"):
        scale = {"log": None, "log1p": None, "log2": 2, "log10": 10}[fname]

        def arg(num, den):
            if scale is None:
                return pi(num, den, sy)
            with mpmath.workprec(4 * f.p + 64):
                return val(rn_mpf(mpmath.pi * num / den / mpmath.log(scale), f), sy)

        if xinf and yinf:
            return inf(1), arg(1, 4) if sx > 0 else arg(3, 4)
        if yinf:
            return inf(1), arg(1, 2)
        if sx > 0:
            return inf(1), zero(sy)
        return inf(1), arg(1, 1)
    if fname == "exp":
        if xinf and sx < 0:
            if yinf:
                return ("zero",), ("zero",)
            # +0 * cis(y)
            return ("zero_signed_cos", None), ("zero_signed_sin", None)
        if xinf and sx > 0:
            if yzero:
                return inf(1), zero(sy)
            if yinf:
                # C99: (+-inf, NaN); the limit of the real part does not exist either, so NaN is accepted for it
                return ("nan_or", ("inf", 0)), ("nan_or", ("any",))
            return ("inf_signed_cos", None), ("inf_signed_sin", None)
        # finite x, infinite y: NaN + i NaN (invalid)
        return ("nan_or", ("any",)), ("nan_or", ("any",))
    if fname in ("asinh", "asin"):
        # casinh(u + iv); asin(z) = -i casinh(iz): iz = -y + ix
        if fname == "asin":
            r, i = _casinh_inf(-sy, sx, yinf, xinf, f)
            # -i*(r + i*i_) = i_ - i r
            return i, _neg(r)
        return _casinh_inf(sx, sy, xinf, yinf, f)
    if fname in ("atanh", "atan"):
        if fname == "atan":
            r, i = _catanh_inf(-sy, sx, f)
            return i, _neg(r)
        return _catanh_inf(sx, sy, f)
    if fname == "acos":
        if xinf and yinf:
            return (pi(1, 4) if sx > 0 else pi(3, 4)), inf(-sy)
        if yinf:
            return pi(1, 2), inf(-sy)
        if sx > 0:
            return zero(1), inf(-sy)
        return pi(1, 1), inf(-sy)
    if fname == "acosh":
        if xinf and yinf:
            return inf(1), (pi(1, 4, sy) if sx > 0 else pi(3, 4, sy))
        if yinf:
            return inf(1), pi(1, 2, sy)
        if sx > 0:
            return inf(1), zero(sy)
        return inf(1), pi(1, 1, sy)
    if fname == "square":
        # (x+iy)^2 = (x-y)(x+y) + 2xy i
        if xinf and yinf:
            return ("any",), ("nan_or", ("inf", sx * sy))
        if xinf:
            return inf(1), (("nan_or", ("zero",)) if yzero else inf(sx * sy))
        return inf(-1), (("nan_or", ("zero",)) if xzero else inf(sx * sy))
    raise KeyError(fname)


def _neg(spec):
    if spec[0] == "val":
        return ("val", spec[1] ^ FSIGN[0])
    if spec[0] == "inf":
        return ("inf", -spec[1])
    return spec


FSIGN = [0]


def _casinh_inf(su, sv, uinf, vinf, f):
    FSIGN[0] = f.sign_mask

    def val(bits, sign):
        return ("val", bits | (f.sign_mask if sign < 0 else 0))

    if uinf and vinf:
        return ("inf", su), val(pi_frac(1, 4, f), sv)
    if vinf:
        return ("inf", su), val(pi_frac(1, 2, f), sv)
    return ("inf", su), val(0, sv)


def _catanh_inf(su, sv, f):
    FSIGN[0] = f.sign_mask
    return ("val", f.sign_mask if su < 0 else 0), ("val", pi_frac(1, 2, f) | (f.sign_mask if sv < 0 else 0))


def accept_component(got_bits, spec, f, tol, cos_sin=None):
    """does a returned component satisfy an Annex-G spec?"""
    nan = flt.is_nan_bits(got_bits, f)
    k = spec[0]
    if k == "any":
        return True
    if k == "nan_or":
        return nan or accept_component(got_bits, spec[1], f, tol, cos_sin)
    if nan:
        return False
    mag = got_bits & ~f.sign_mask
    if k == "zero":
        return mag == 0
    if k == "inf":
        return mag == f.inf_bits and (spec[1] == 0 or _sgn(got_bits, f) == spec[1])
    if k == "val":
        want = spec[1]
        if (want & ~f.sign_mask) == 0:
            return got_bits == want
        return _sgn(got_bits, f) == _sgn(want, f) and abs(flt.index(got_bits, f) - flt.index(want, f)) <= tol
    if k in ("zero_signed_cos", "zero_signed_sin", "inf_signed_cos", "inf_signed_sin"):
        s = cos_sin[0] if k.endswith("cos") else cos_sin[1]
        want_mag = 0 if k.startswith("zero") else f.inf_bits
        if mag != want_mag:
            return False
        return s == 0 or _sgn(got_bits, f) == s
    raise KeyError(k)


# ---------------------------------------------------------------- real functions

RFUNCS = {
    "absolute": abs,
    "acos": mpmath.acos,
    "acosh": mpmath.acosh,
    "asin": mpmath.asin,
    "asinh": mpmath.asinh,
    "square": lambda x: x * x,
}


def ziv_real(fname, args, f):
    prec = 4 * f.p + 64
    span, mag = _exponent_span(list(args))
    prec += min(int(mag), 2400)
    prev = None
    fn = RFUNCS.get(fname) or (lambda a, b: mpmath.hypot(a, b))
    while prec <= MAXPREC:
        with mpmath.workprec(prec):
            v = fn(*args)
            if isinstance(v, mpmath.mpc):
                if v.imag != 0:
                    return None  # outside the real domain
                v = v.real
            cur = rn_mpf(v, f)
        if prev is not None and prev == cur:
            return cur
        prev = cur
        prec *= 2
    raise Undecided(fname)
